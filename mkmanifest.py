#!/usr/bin/env python3
"""Regenerates MANIFEST.json from the table below (kept next to the checks so it cannot drift)."""
import json, subprocess
ids=[json.loads(l)['id'] for l in open('/verif/properties.jsonl')]
hook_commits=subprocess.run(['git','-C','/repo','log','--format=%h','--grep=^verif:'],capture_output=True,text=True).stdout.split()
CHECKS={
 'C06': dict(engine='SEQ', level='model_checking', design='3/C06',
   text='Explicit-state BFS to fixpoint over the (state, claimant) space of a task (and an epic) where every transition is one real ergo command, under every request shape (8 state values x 4 claim values x --agent x 3 input modes x set/claim <id>/new); oracle = literal copy of the documented transition table and claim rule (accept iff allowed, exact resulting state, rejected => untouched). Finite space, explored completely.',
   note='Abstract state = (state, claimant): set/claim decisions read nothing else of a task. In-process command server validated against spawned production binaries on every run; each violation re-confirmed 5x with spawned processes.',
   technique='explicit-state BFS over real commands + reference model'),

 'C10': dict(engine='SEQ', level='model_checking', design='3/C10',
   text='Exhaustive cross product of request shapes (command x field subsets up to pairs x every value incl. poisoned ones x 10 targets incl. pruned/unknown ids x 3 input modes; all sequence pairs/triples over 8 ids of every kind; plan rejection catalogue; usage errors; every mutating command under a held flock) executed as real commands on several pre-states; oracle: exit != 0 => .ergo byte-identical (hence observable state identical), otherwise full observable comparison. Known findings K1-K3 are matched by call-site signature only.',
   note='Finite catalogue over small value domains, not all inputs. Byte-identical store => identical observations relies on reads being a function of the log (C12). Server backend conformance-checked against spawned binaries each run.',
   technique='exhaustive small-scope enumeration of failing requests over real commands'),
 'C14': dict(engine='SEQ', level='model_checking', design='3/C14',
   text='Explicit-state BFS to fixpoint (canonical labelled graph as key) over <=2 (thorough 3) tasks and <=2 epics where every epic argument class (live epic, plain task, unknown, pruned, own id, empty) is tried through new/set in all 3 input modes, interleaved with state changes, prune, compact and plan; in every reached state each task epic_id must name a live epic, epics have none, bad arguments must be rejected with the log unchanged, and human `list --all` must show every live item exactly once under its own epic.',
   note='State key abstracts titles/bodies/history (argued in DESIGN 2.4). Bounded item counts. Server backend conformance-checked; violations confirmed 5x with spawned processes.',
   technique='explicit-state BFS over real commands + invariant'),

 'C08': dict(engine='SEQ', level='model_checking', design='3/C08',
   text='Exhaustive enumeration of every store with <=2 tasks (9 state/claim/pruned options x 3 memberships, every acyclic dependency relation, 3 epic-dependency options, optionally pruned epic) and 3 tasks (quick: restricted options; thorough: full), each also reached through 4 history variants (re-assignment between epics, link/unlink noise, reopen, claim churn); on each store the ready/blocked flags, `list --ready` (JSON and human) and `claim` (global and per epic, incl. the no_ready reply) of the real binary are compared with a literal transcription of the manual\'s definition.',
   note='Stores are synthesised event logs in ergo\'s own format (this reaches the crash-only todo+claimed state); a subset is rebuilt through the real CLI and must observe identically. Distinct timestamps only.',
   technique='exhaustive small-scope state enumeration + reference model'),

 'C07': dict(engine='SEQ+SCHED', level='model_checking', design='3/C07',
   text='Sequential: explicit-state BFS to fixpoint (canonical graph key) over 3 tasks + 2 epics with `sequence` and `sequence rm` on every ordered pair over {tasks, epics, unknown id, pruned id}, every 3-chain, done/prune/compact; in every state the deps relation read from show --json must be irreflexive, acyclic, same-kind, between live ids, with rdeps its exact mirror; every request is accepted iff a reference model (self / cross-kind / dead endpoint / would-cycle) accepts it and changes exactly the requested edge(s). Concurrent: see coverage.concurrent.',
   note='State key = canonical labelled graph. Bounded to 3 tasks + 2 epics. Server backend conformance-checked each run.',
   technique='explicit-state BFS over real commands + reference model; preemption-bounded schedule enumeration for concurrent sequence'),
 'C15': dict(engine='SEQ', level='model_checking', design='3/C15',
   text='Explicit-state BFS to fixpoint over 2 epics (+1 via plan) and <=2 (thorough 3) tasks with new task (root / in epic), set epic, sequence / sequence rm on every task pair and epic pair, done/todo, prune and plan; in every reached state (i) the effective waits-for relation (own deps + children of the epics the task\'s epic depends on) must be acyclic and (ii) if some task is todo and none is doing/blocked/error then something is ready and `claim` must not answer no_ready. The known finding K4 is matched only when the cycle contains an inherited epic-level edge; a cycle of direct edges is a violation.',
   note='State key = canonical labelled graph; bounded item counts.',
   technique='explicit-state BFS over real commands + invariant'),

 'C09': dict(engine='SEQ', level='model_checking', design='3/C09',
   text='(a) every store of the C08 scope with <=2 tasks (thorough: + restricted 3-task stores): dry run vs --yes vs the stated policy (done/canceled tasks, then childless epics), dry run byte-identical, pruned ids gone from all lists, dependents\' readiness recomputed, and 9 commands per pruned id must each fail and change nothing; (b) 4 creating commands x every answer of the scripted random source (fresh / collides with live id / with tombstoned task / with tombstoned epic): an acknowledged create must exist and never carry a tombstoned id; commands after compact; (c) all k! orders of a pruned id\'s 7 events in a hand-merged log: none resurrects it or leaves edges behind.',
   note='ids forced through a scripted crypto/rand source (server and spawned verif binary). Re-issue after compact not explored (no record of the id remains). Synthesised logs in ergo\'s format.',
   technique='exhaustive small-scope enumeration (states, environment answers, event permutations) over real commands'),

 'C16': dict(engine='SEQ', level='model_checking', design='3/C16',
   text='Every request of the C10 catalogue (every command, field combination, input mode, failing variants) plus success-oriented requests for every data command, all with --json placed before and after the subcommand, on 3 pre-states: a success must print exactly one JSON value (strict decoder + EOF), a failure must have stderr and at most one JSON error object on stdout, and every field of a success reply (new ids fresh and well-formed, state, claimant, claimed_at, epic, title, body, edges present/absent, plan ids/order/edges, pruned ids incl. dry-run = --yes on a copy, where/init paths) must equal what an immediately following show/list reports.',
   note='Finite catalogue over small value domains; documentation printers (quickstart, version, --help) are outside the alphabet. Server backend conformance-checked each run.',
   technique='exhaustive small-scope enumeration of requests over real commands + differential read-back'),

 'C11': dict(engine='SEQ', level='model_checking', design='3/C11',
   text='Exhaustive enumeration of plan documents: all 1-2 task documents over title variants (distinct, duplicate, case variant, trailing space, blank, missing, NFC duplicate) x `after` multisets (<=2) over {other, own, dangling, empty, case variant, trailing-space variant}; every relation (incl. cyclic) on 3 tasks with distinct and duplicate titles (thorough: all 4096 relations on 4 tasks); body and epic-title variants; 22 structurally invalid payloads; each x 5 pre-stores (empty, rich, legacy file name, two torn tails). Oracle: accept iff the reference model accepts; on accept exactly one epic + n todo unclaimed tasks inside it with byte-equal titles/bodies, edge set = `after` relation, reply = read-back, creation order = input order, every pre-existing show byte-identical, store readable; on reject one error object and a byte-identical .ergo.',
   note='Reference model is a literal reading of the property. Small-scope: <=3 (4) tasks.',
   technique='exhaustive small-scope input enumeration over real commands + reference model'),

 'C01': dict(engine='SCHED', level='model_checking', design='3/C01',
   text='Stateless model checking of real ergo processes: 2-4 `claim` processes (with/without --epic; alone and with a put-back, dependency-finishing, creating, pruning or compacting writer; small, 140 KB and 2.5 MB logs) are parked at the verifPoint hooks before every store operation and every interleaving up to 2 (thorough 3-4) preemptions is executed. Oracle per execution: some order of the commands that exited 0, consistent with real time, reproduces every reply (which task / no_ready) and the final observable state when run one at a time on the real code (so the oldest ready task wins), lock-busy commands changed nothing, no task is handed out twice, the winner\'s task is doing and claimed by it, log intact, nobody blocks.',
   note='Code between two hook points is treated as atomic; a single write(2)/rename(2) is indivisible. Preemption-bounded (bound reported), not unbounded. The schedule is the only nondeterminism (replayed twice per scenario; divergence is a hard error).',
   technique='stateless model checking (iterative preemption bounding) of real processes under a controlled scheduler'),
 'C02': dict(engine='SCHED', level='model_checking', design='3/C02',
   text='Every unordered pair over a 20-command alphabet (new, new with claim, new in epic, set with 1/3/result fields, unclaim, set doing, claim, claim <id>, sequence both directions, rm, chain, plan, prune, compact, init, reopen) plus init / missing-lock-file races and triples, each explored under every interleaving of the hooked store steps up to the preemption bound (quick: 1, 2 for the conflict-prone single-section commands; thorough: 3). Oracle: serial equivalence on the real implementation in an order consistent with real time for the commands that exited 0 (replies + final observable state), failed commands contribute nothing, log is whole JSON lines, nobody blocks in flock. Composite commands are additionally tried at lock-section granularity: explainable only that way = known finding K1-K3 attributed to that call site.',
   note='Same assumptions as C01. Serial reference runs use the same binary (differential oracle).',
   technique='stateless model checking (iterative preemption bounding) of real processes + serial-equivalence oracle'),

 'C13': dict(engine='SCHED', level='model_checking', design='3/C13',
   text='A lock-free reader process (list --json --all, show --json; thorough also --epics / --ready) runs against every writer of the C02 alphabet plus a >4 KiB multi-event append, on a small and a 140 KB store (multi-read scans), and against two writers at once; every interleaving of the reader\'s hooked steps (path stat, open, tail probe, each read chunk) with the writer\'s steps (lock, each appended line, temp write/flush/sync, rename) up to 2 (thorough 3) preemptions. Oracle: the reader exits 0 and its stdout equals the same command\'s stdout on one of the store versions that existed between its invocation and its exit (the project directory is snapshotted after every scheduler step; a moment without a log does not count).',
   note='A single write(2)/rename(2) is indivisible to the reader (page-granular tearing of one write is not modelled). Code between two hook points is atomic.',
   technique='stateless model checking (iterative preemption bounding) of real processes + version-set oracle'),

 'C03': dict(engine='CRASH', level='model_checking', design='3/C03',
   text='Explicit-state search over crash states produced by the real production binary: from 3 pre-states (incl. legacy file name) every command of a 14-command menu is killed with SIGKILL (strace fault injection) on entry to every store-mutating system call it makes, and every log write is also cut short at byte offsets {1,2,L/2,L-2,L-1} (thorough: every offset). Every distinct state must be readable, show exactly its whole events, keep every earlier event unchanged and in order; on damaged states (torn tail, leftover temp file) every menu command must behave exactly as on the clean store holding the same whole events and leave the store readable; damaged states are crashed again (depth 2, thorough 3).',
   note='Process death only (page cache survives SIGKILL): no power-loss or fsync-reordering model. A torn write is a byte prefix of one write(2). Kill points are verified from each injected run\'s own trace; strace counts per thread, give-ups are reported.',
   technique='fault enumeration + explicit-state search: SIGKILL at every store syscall boundary, torn-write enumeration, recovery chains'),
 'C04': dict(engine='CRASH', level='model_checking', design='3/C04',
   text='Every multi-event command instance (claim x3, all 26 multi-field subsets of set{title,body,epic,claim,state} + flag / --agent variants, prune, plan x2, compact, 6 composite commands, 2 single-event controls) x 3 pre-states: the production binary is killed on entry to EVERY store-mutating system call (reference strace run locates them; each injected run is verified from its own trace). Oracle: the normalised observable state after the kill is exactly the state before the command or exactly the state after an uninterrupted run. Composite commands (several lock sections) are known findings K1-K3 matched by call site.',
   note='Points between two non-mutating system calls leave the same files as the next mutating boundary. Process death only.',
   technique='fault enumeration: SIGKILL at every store-mutating syscall boundary of the production binary'),

 'C05': dict(engine='SEQ', level='model_checking', design='3/C05',
   text='Explicit-state search with NO abstraction (state key = the whole normalised history): every history of depth <= 4 (thorough 5) over the alphabet (new epic/task in several input forms, plan, set title/body/claim/unclaim/state/epic/result, claim, claim <id>, sequence / rm on task and epic pairs, prune, compact) from a fresh store, and every single op from further roots (rich store, the repository\'s legacy sample project, synthetic legacy untitled items, each also with 3 torn tails). On every reached log s with c = compact(s): everything a reader sees is byte-identical (list --all/--epics/--ready, show of every id incl. timestamps, results, deps/rdeps, flags), the id sequence handed out by repeated claim is equal, pruned ids are gone from c, compact(c) changes nothing (modulo link-event ts), and for every op o of the alphabet o(s) and o(c) exit alike and end in the same observable state (commuting diagram, up to depth-1 below the bound).',
   note='Scripted ids, real timestamps; same-log comparisons byte-exact, cross-run comparisons drop timestamps. Known finding K5 matched by (op, legacy-untitled item).',
   technique='explicit-state BFS over real commands, differential oracle (with vs without compact)'),

 'C17': dict(engine='SEQ', level='model_checking', design='3/C17',
   text='Exhaustive string enumeration: all strings of length 1-2 (thorough 1-3) over a 26-symbol alphabet with one symbol per transformation in the pipeline (quote, backslash, slash, LF, CR, TAB, NUL, US, DEL, <, >, &, NEL, NBSP, LS, PS, BOM, combining mark, 2-/3-/4-byte runes, U+FFFD, U+FFFF, brace) plus 20 long texts (64 KiB scanner boundaries +-1, 128 KiB, 300 KB; plain, 3-byte runes, alternating space / newline so that a space sits next to every possible cut) x {title, body} x {new task, new epic, set, plan epic, plan task} x {JSON stdin, flags, --body-stdin}; each accepted text is read back with show --json directly and again after compact and must be identical code point for code point (titles via flag or set: TrimSpace), blank-after-trim inputs must be rejected with nothing written.',
   note='argv cannot carry NUL or >128 KiB arguments (skipped, counted). Expected value uses Go\'s TrimSpace as the definition of surrounding white space.',
   technique='exhaustive small-scope input enumeration over real commands'),

 'C12': dict(engine='SEQ', level='model_checking', design='3/C12',
   text='Exhaustive log-mutation enumeration: seeds (two CLI-produced logs incl. prune + result, a hand-merged log whose items share one timestamp; thorough: the legacy sample project) x {every truncation offset (quick: dense on the last two lines, every 7th elsewhere), every line delete / duplicate / adjacent swap, conflict markers / unknown event type / blank lines at every position, all permutations of the first 5 (6) lines, one (8) bit flips per byte, every field of every event replaced by null/0/true/[]/{}/""/malformed timestamps or removed, empty / CRLF / BOM / NUL / binary / no trailing newline, one line of 10 MiB-1 and 10 MiB+1}; on each content 11 read commands are run 3x (8x when sort keys tie) and 6 mutating commands once. Oracle: exit in {0,1}, never a panic or hang, exit 1 => `error:` message which for an unparsable line names file and 1-based line; repeated runs byte-identical; after all reads .ergo is byte-identical (a missing lock may appear); after a successful mutation other than compact the earlier events are all present, in order, with unchanged (type, ts, data).',
   note='Output determinism is decided by repetition: Go\'s map-iteration seed is not an interceptable choice point (a difference is always real; absence after k runs is evidence). Everything else is enumerated.',
   technique='exhaustive small-scope input (file content) enumeration over real commands'),

 'C18': dict(engine='SEQ', level='model_checking', design='3/C18',
   text='Exhaustive configuration enumeration: all 27 layouts of a 3-level directory tree (.ergo absent / directory / regular file per level) x start directory at every level x up to 9 spellings (cwd only, --dir absolute, with trailing slash, ".", "..", relative name, "./x/../x", the .ergo directory itself absolute and relative) plus all 8 presence combinations of {plans.jsonl, events.jsonl, lock}, x 10 commands, plus 3 forms of init on every existing store. The checker computes the nearest enclosing .ergo from the layout: it must be what `where --json` reports, the only directory any command changes, read and written through the same log file (plans.jsonl if present else events.jsonl), the lock is recreated, no second log file appears, and init leaves every observation and every log byte-identical.',
   note='Scratch directories have no .ergo above the tree root. Server backend conformance-checked (cwd/PWD handling) against spawned binaries.',
   technique='exhaustive configuration enumeration over real commands'),

 'C20': dict(engine='SEQ', level='model_checking', design='3/C20',
   text='Exhaustive path enumeration: every path string of <=3 components over an 18-symbol component alphabet (plain file, directory, .., ., .ergo, .ergo2, ..x, empty, unicode, symlinks to a file / a directory / outside the project / nowhere / /dev/null / the log itself, missing, plans.jsonl, empty dir), each with and without leading and trailing slash, against a fixed project tree; plus targets {task in 3 states, epic, pruned, unknown}, 9 summaries and 3 input modes on 8 paths. Oracle: accepted => target is a live task, the cleaned path is relative, does not start with a .. component, is not .ergo or below, names an existing regular file, the recorded path is the cleaned one, sha256 is the hash of the content at that moment, file_url parses to file:// + the absolute path, the summary is the trimmed single-line input; rejected => nothing written. Then explicit-state search over every history of depth <=4 (5) of later commands (more results, state/title/epic/claim changes, results elsewhere, claim, prune, compact): the results list must equal the model list, newest first, with unaltered evidence, in every state.',
   note='Lexical confinement judged on filepath.Clean(input); existence/regularity follows symlinks. Over-rejection is not a violation (accepted cases are counted). FIFOs are not in the tree (reading one blocks).',
   technique='exhaustive small-scope input enumeration + explicit-state BFS over real commands + reference model'),

 'C19': dict(engine='SEQ', level='model_checking', design='3/C19',
   text='A (structure): every store of the C08 scope with <=2 tasks (quick: + every 7th restricted 3-task store; thorough: all) x 7 list views (default, --all, --ready, --epics, -q, --epic E, --epic E --ready): rows (lines ending in an id), tree glyphs, parent epic, summary buckets over the view\'s scope and empty-state sentences are compared with `list --json` of the same store. B (layout): 6 text classes (ASCII, CJK wide, combining, astral, mixed, accented) x title widths {1,20,21,70,130 (+12,40)} x stdout in {pipe, pty of 20,21,40,60,79,80,81,120,200 columns} x 4 views on a store with blockers, claimants, children, results and epic dependencies: every row valid UTF-8, no wider than the terminal, id in one common column (plus the structure oracle again).',
   note='Independent display-width function valid for the chosen alphabet (no ambiguous-width characters in titles); widths < 20 not explored ("narrow" is not defined by the property). A layout violation must reproduce 5x before it is reported.',
   technique='exhaustive small-scope enumeration (states x flags x widths x text classes) over real commands on a pty'),
}
NA_REASON='check not built yet (work in progress; design in DESIGN.md)'
m={"version":1,
 "setup_cmd":"./setup.sh",
 "hooks":{"guard":"verif (Go build tag)","enable":"go build -tags verif -overlay <adds /verif/harness/zz_verif_server.go to cmd/ergo> ./cmd/ergo","baseline_off_cmd":"/verif/baseline.sh /repo","source_commits":hook_commits,"add_only":True},
 "engines":[
  {"name":"SEQ","path":"/verif/internal/checks","serves_properties":[k for k,v in CHECKS.items() if 'SEQ' in v['engine']],"kind_free_text":"explicit-state / exhaustive small-scope search whose transition function is the real ergo command (in-process server, conformance-checked against spawned binaries)"},
  {"name":"SCHED","path":"/verif/internal/sched","serves_properties":[k for k,v in CHECKS.items() if 'SCHED' in v['engine']],"kind_free_text":"stateless preemption-bounded DFS over real ergo processes parked at verifPoint hooks"},
  {"name":"CRASH","path":"/verif/internal/crash","serves_properties":[k for k,v in CHECKS.items() if 'CRASH' in v['engine']],"kind_free_text":"SIGKILL at every store syscall boundary (strace fault injection) + torn-write enumeration + recovery chains"},
 ],
 "checks":[],"not_applicable":[]}
for i in ids:
    if i in CHECKS:
        c=CHECKS[i]
        m["checks"].append({"property_id":i,"quick_cmd":f"./run.sh {i} quick","thorough_cmd":f"./run.sh {i} thorough","evidence_file":f"/verif/evidence/{i}.json",
          "replay_cmd_template":f"./run.sh {i} quick --replay {{path}}","engine":c['engine'],
          "level_claimed":{"category":c['level'],"text":c['text'],"design_ref":"DESIGN.md section "+c['design']},"level_note":c['note'],"technique":c['technique']})
    else:
        m["not_applicable"].append({"property_id":i,"reason":NA_REASON})
json.dump(m,open('/verif/MANIFEST.json','w'),indent=1)
print("checks:",len(m["checks"]),"not_applicable:",len(m["not_applicable"]))
