// vcheck runs one property check: vcheck <Cxx> [--tier quick|thorough] [--replay file]
package main

import (
	"fmt"
	"os"
	"sort"

	"verif/internal/checks"
	"verif/internal/core"
)

func main() {
	if len(os.Args) < 2 {
		var ids []string
		for id := range checks.Registry {
			ids = append(ids, id)
		}
		sort.Strings(ids)
		fmt.Fprintln(os.Stderr, "usage: vcheck <property> [--tier quick|thorough] [--replay file]; properties:", ids)
		os.Exit(2)
	}
	prop := os.Args[1]
	tier := os.Getenv("VERIF_TIER")
	if tier == "" {
		tier = "quick"
	}
	replay := ""
	for i := 2; i < len(os.Args); i++ {
		switch os.Args[i] {
		case "--tier":
			i++
			tier = os.Args[i]
		case "--replay":
			i++
			replay = os.Args[i]
		}
	}
	if tier != "quick" && tier != "thorough" {
		fmt.Fprintln(os.Stderr, "bad tier", tier)
		os.Exit(2)
	}
	if prop == "WARM" { // setup: compile both binaries once so later runs hit the build cache
		env, err := core.NewEnv(prop, tier)
		if err == nil {
			err = env.Build()
			env.Cleanup()
		}
		if err != nil {
			fmt.Fprintln(os.Stderr, "warm-up build failed:", err)
			os.Exit(3)
		}
		os.Exit(0)
	}
	fn, ok := checks.Registry[prop]
	if !ok {
		fmt.Fprintln(os.Stderr, "unknown property", prop)
		os.Exit(2)
	}
	env, err := core.NewEnv(prop, tier)
	if err != nil {
		fmt.Fprintln(os.Stderr, "HARNESS-ERROR", err)
		os.Exit(3)
	}
	if err := env.Build(); err != nil {
		env.HarnessError("build of %s failed: %v", env.Repo, err)
	}
	env.Logf("built %s (prod + verif)", env.Repo)
	if replay != "" {
		checks.Replay(env, replay)
		return
	}
	fn(env)
	env.HarnessError("check %s returned without calling Finish", prop)
}
