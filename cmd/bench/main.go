package main

import (
	"fmt"
	"os"
	"time"

	"verif/internal/core"
)

func main() {
	env, err := core.NewEnv("BENCH", "quick")
	if err != nil {
		panic(err)
	}
	defer env.Cleanup()
	if err := env.Build(); err != nil {
		panic(err)
	}
	w := env.W0()
	w.Run(core.R(w.Proj, "init"))
	for i := 0; i < 5; i++ {
		w.Run(core.R(w.Proj, "--json", "new", "task").In(`{"title":"x"}`))
	}
	t0 := time.Now()
	n := 2000
	var us int64
	for i := 0; i < n; i++ {
		us += w.Run(core.R(w.Proj, "--json", "list", "--all")).Micros
	}
	fmt.Printf("inside server: %.3f ms/cmd\n", float64(us)/1000/float64(n))
	fmt.Printf("server list: %.3f ms/cmd\n", float64(time.Since(t0).Microseconds())/1000/float64(n))
	t0 = time.Now()
	for i := 0; i < n; i++ {
		st, _ := core.Snapshot(w.Proj)
		st.Materialize(w.Proj)
	}
	fmt.Printf("snapshot+materialize: %.3f ms\n", float64(time.Since(t0).Microseconds())/1000/float64(n))
	t0 = time.Now()
	for i := 0; i < 200; i++ {
		w.Spawn(core.R(w.Proj, "--json", "list", "--all"))
	}
	fmt.Printf("spawn list: %.3f ms/cmd\n", float64(time.Since(t0).Microseconds())/1000/200)
	_ = os.Stderr
}
