// bench/debug helper: runs one command through the in-process server on a replay store and dumps the raw output.
package main

import (
	"encoding/json"
	"fmt"
	"os"
	"strconv"

	"verif/internal/core"
)

func main() {
	env, err := core.NewEnv("BENCH", "quick")
	if err != nil {
		panic(err)
	}
	defer env.Cleanup()
	if err := env.Build(); err != nil {
		panic(err)
	}
	w := env.W0()
	b, _ := os.ReadFile(os.Args[1])
	var art struct {
		Replay struct {
			Store map[string][]byte `json:"store"`
		} `json:"replay"`
	}
	json.Unmarshal(b, &art)
	core.Store(art.Replay.Store).Materialize(w.Proj)
	cols, _ := strconv.Atoi(os.Args[2])
	for i := 0; i < 3; i++ {
		req := core.R(w.Proj, os.Args[3:]...).In("")
		req.PtyCols = cols
		res := w.Run(req)
		fmt.Printf("exit=%d\n%q\n", res.Exit, res.Out)
	}
}
