//go:build verif

// This file is NOT part of sandover/ergo. It is added to package main of cmd/ergo by
// `go build -overlay` (see /verif/internal/core/build.go). It turns the real binary into an
// in-process command server when ERGO_VERIF_SERVER=1: every request re-executes the real cobra
// root command with all flags reset, so the explicit-state engines can run ~10^4 real commands/s.
// It also lets a spawned process use a scripted crypto/rand source (ERGO_VERIF_RAND=<counter>).
package main

import (
	"bufio"
	"bytes"
	"crypto/rand"
	"crypto/sha256"
	"encoding/hex"
	"encoding/json"
	"errors"
	"fmt"
	"io"
	"os"
	"runtime/debug"
	"sort"
	"strconv"
	"strings"
	"sync"
	"syscall"
	"time"
	"unsafe"

	"github.com/sandover/ergo/internal/ergo"
	"github.com/spf13/cobra"
	"github.com/spf13/pflag"
)

type verifReq struct {
	Cwd      string   `json:"cwd"`
	Args     []string `json:"args"`
	Stdin    *[]byte  `json:"stdin"`     // nil => /dev/null (char device => "not piped")
	RandBase int64    `json:"rand_base"` // <0 => real randomness
	RandHex  []string `json:"rand_hex"`  // explicit answers for the first reads
	PtyCols  int      `json:"pty_cols"`  // >0 => stdout is a pty slave of that width
	PtyRows  int      `json:"pty_rows"`
	Observe  bool     `json:"observe"` // run list --all/--epics/--ready + show of every id, one round trip
}

type verifRes struct {
	Out    []byte `json:"out"`
	Err    []byte `json:"err"`
	Exit   int    `json:"exit"`
	Panic  bool   `json:"panic"`
	Reads  int    `json:"rand_reads"`
	Micros int64  `json:"micros"`
}

type scriptedRand struct {
	hex   []string
	n     int64
	reads int
}

func verifRandBytes(kind string, n int64, size int) []byte {
	out := make([]byte, 0, size)
	var ctr uint32
	for len(out) < size {
		h := sha256.New()
		fmt.Fprintf(h, "%s/%d/%d", kind, n, ctr)
		out = append(out, h.Sum(nil)...)
		ctr++
	}
	return out[:size]
}

func (s *scriptedRand) Read(p []byte) (int, error) {
	s.reads++
	if len(s.hex) > 0 {
		b, err := hex.DecodeString(s.hex[0])
		s.hex = s.hex[1:]
		if err == nil && len(b) >= len(p) {
			copy(p, b)
			return len(p), nil
		}
	}
	kind := "x"
	switch len(p) {
	case 4:
		kind = "id"
	case 16:
		kind = "uuid"
	}
	copy(p, verifRandBytes(kind, s.n, len(p)))
	s.n++
	return len(p), nil
}

func init() {
	if v := os.Getenv("ERGO_VERIF_RAND"); v != "" {
		n, _ := strconv.ParseInt(v, 10, 64)
		var hx []string
		if h := os.Getenv("ERGO_VERIF_RAND_HEX"); h != "" {
			hx = strings.Split(h, ",")
		}
		rand.Reader = &scriptedRand{n: n, hex: hx}
	}
	if os.Getenv("ERGO_VERIF_SERVER") == "1" {
		verifServe()
		os.Exit(0)
	}
}

func verifResetFlags(c *cobra.Command) {
	reset := func(f *pflag.Flag) {
		_ = f.Value.Set(f.DefValue)
		f.Changed = false
	}
	c.Flags().VisitAll(reset)
	c.PersistentFlags().VisitAll(reset)
	for _, sub := range c.Commands() {
		verifResetFlags(sub)
	}
}

// verifEmulateExitErr mirrors cmd_helpers.go:exitErr without os.Exit. The conformance pass of every
// check compares this path against spawned production binaries byte for byte.
func verifEmulateExitErr(err error, opts *ergo.GlobalOptions) {
	fmt.Fprintln(os.Stderr, "error:", err)
	if opts == nil || !opts.Quiet {
		if strings.HasPrefix(err.Error(), "usage:") {
			fmt.Fprintln(os.Stderr, "hint: run `ergo --help`")
		} else if errors.Is(err, ergo.ErrNoErgoDir) {
			fmt.Fprintln(os.Stderr, "hint: run `ergo init` in your repo")
		} else if isPermissionError(err) {
			fmt.Fprintln(os.Stderr, "hint: permission error accessing .ergo/; check repo permissions (ergo needs read/write)")
		} else if strings.Contains(err.Error(), ".ergo") && strings.Contains(err.Error(), "exists but is not a directory") {
			fmt.Fprintln(os.Stderr, "hint: .ergo must be a directory; delete/rename the file and run `ergo init`")
		} else if errors.Is(err, ergo.ErrLockBusy) {
			fmt.Fprintln(os.Stderr, "hint: another process is writing; retry")
		}
	}
}

const verifPtyEnd = "\x00<<verif-pty-end-7f3a>>"

type winsize struct{ Rows, Cols, X, Y uint16 }

func verifOpenPty(cols, rows int) (master, slave *os.File, err error) {
	m, err := os.OpenFile("/dev/ptmx", os.O_RDWR|syscall.O_NOCTTY, 0)
	if err != nil {
		return nil, nil, err
	}
	var unlock int32
	if _, _, e := syscall.Syscall(syscall.SYS_IOCTL, m.Fd(), syscall.TIOCSPTLCK, uintptr(unsafe.Pointer(&unlock))); e != 0 {
		m.Close()
		return nil, nil, e
	}
	var n uint32
	if _, _, e := syscall.Syscall(syscall.SYS_IOCTL, m.Fd(), syscall.TIOCGPTN, uintptr(unsafe.Pointer(&n))); e != 0 {
		m.Close()
		return nil, nil, e
	}
	s, err := os.OpenFile(fmt.Sprintf("/dev/pts/%d", n), os.O_RDWR|syscall.O_NOCTTY, 0)
	if err != nil {
		m.Close()
		return nil, nil, err
	}
	ws := winsize{Rows: uint16(rows), Cols: uint16(cols)}
	if _, _, e := syscall.Syscall(syscall.SYS_IOCTL, s.Fd(), syscall.TIOCSWINSZ, uintptr(unsafe.Pointer(&ws))); e != 0 {
		m.Close()
		s.Close()
		return nil, nil, e
	}
	return m, s, nil
}

func verifMemfd(name string) *os.File {
	b := append([]byte(name), 0)
	fd, _, e := syscall.Syscall(319 /* memfd_create */, uintptr(unsafe.Pointer(&b[0])), 0, 0)
	if e != 0 {
		fmt.Fprintln(os.Stderr, "verif server: memfd_create:", e)
		os.Exit(98)
	}
	return os.NewFile(fd, name)
}

func verifServe() {
	in := bufio.NewReaderSize(os.NewFile(3, "verif-req"), 1<<20)
	out := bufio.NewWriter(os.NewFile(4, "verif-res"))
	enc := json.NewEncoder(out)
	realStdin, realStdout, realStderr := os.Stdin, os.Stdout, os.Stderr
	realRand := rand.Reader
	for {
		line, err := in.ReadBytes('\n')
		if err != nil {
			return
		}
		var req verifReq
		if err := json.Unmarshal(line, &req); err != nil {
			fmt.Fprintln(realStderr, "verif server: bad request:", err)
			os.Exit(98)
		}
		if req.Observe {
			batch := verifObserve(req)
			os.Stdin, os.Stdout, os.Stderr = realStdin, realStdout, realStderr
			if err := enc.Encode(batch); err != nil {
				os.Exit(98)
			}
			out.Flush()
			continue
		}
		t0 := time.Now()
		res := verifRunOne(req)
		res.Micros = time.Since(t0).Microseconds()
		os.Stdin, os.Stdout, os.Stderr = realStdin, realStdout, realStderr
		rand.Reader = realRand
		if err := enc.Encode(res); err != nil {
			os.Exit(98)
		}
		out.Flush()
	}
}

type verifObsRes struct {
	IDs []string   `json:"ids"`
	Res []verifRes `json:"res"` // all, epics, ready, then one show per id
}

// verifObserve runs the read commands of an observation through the same cobra path, in one round trip.
func verifObserve(req verifReq) verifObsRes {
	var o verifObsRes
	run := func(args ...string) verifRes {
		r := verifRunOne(verifReq{Cwd: req.Cwd, Args: args, RandBase: -1})
		o.Res = append(o.Res, r)
		return r
	}
	seen := map[string]bool{}
	for _, flag := range []string{"--all", "--epics", "--ready"} {
		r := run("--json", "list", flag)
		if r.Exit != 0 {
			return o
		}
		var items []struct {
			ID string `json:"id"`
		}
		if err := json.Unmarshal(r.Out, &items); err != nil {
			return o
		}
		if flag != "--ready" {
			for _, it := range items {
				if !seen[it.ID] {
					seen[it.ID] = true
					o.IDs = append(o.IDs, it.ID)
				}
			}
		}
	}
	sort.Strings(o.IDs)
	for _, id := range o.IDs {
		run("--json", "show", id)
	}
	return o
}

func verifRunOne(req verifReq) (res verifRes) {
	if err := os.Chdir(req.Cwd); err != nil {
		return verifRes{Err: []byte("verif server: chdir: " + err.Error()), Exit: 99}
	}
	os.Setenv("PWD", req.Cwd)

	// stdin: nil => /dev/null (char device, "not piped"); else a regular file (same as a pipe for ergo:
	// both are "not a char device" and are read to EOF)
	var stdinR *os.File
	var wg sync.WaitGroup
	if req.Stdin == nil {
		f, err := os.Open("/dev/null")
		if err != nil {
			return verifRes{Err: []byte("verif server: " + err.Error()), Exit: 99}
		}
		stdinR = f
	} else {
		f := verifMemfd("stdin")
		if _, err := f.Write(*req.Stdin); err != nil {
			return verifRes{Err: []byte("verif server: " + err.Error()), Exit: 99}
		}
		f.Seek(0, io.SeekStart)
		stdinR = f
	}
	// stdout / stderr: regular (memfd) files unless a pty is requested
	var outBuf bytes.Buffer
	var outW, errW *os.File
	var ptyMaster *os.File
	if req.PtyCols > 0 {
		rows := req.PtyRows
		if rows <= 0 {
			rows = 50
		}
		m, s, err := verifOpenPty(req.PtyCols, rows)
		if err != nil {
			return verifRes{Err: []byte("verif server: pty: " + err.Error()), Exit: 99}
		}
		ptyMaster, outW = m, s
		wg.Add(1)
		go func() {
			defer wg.Done()
			// read until the end marker written after the command (closing the slave first can lose buffered output)
			buf := make([]byte, 65536)
			for {
				n, err := m.Read(buf)
				outBuf.Write(buf[:n])
				if err != nil || bytes.Contains(outBuf.Bytes(), []byte(verifPtyEnd)) {
					return
				}
			}
		}()
	} else {
		outW = verifMemfd("stdout")
	}
	errW = verifMemfd("stderr")
	os.Stdin, os.Stdout, os.Stderr = stdinR, outW, errW

	var sr *scriptedRand
	if req.RandBase >= 0 || len(req.RandHex) > 0 {
		sr = &scriptedRand{n: req.RandBase, hex: append([]string(nil), req.RandHex...)}
		if sr.n < 0 {
			sr.n = 0
		}
		rand.Reader = sr
	}

	exit := 0
	panicked := false
	func() {
		defer func() {
			if r := recover(); r != nil {
				panicked = true
				exit = 2
				fmt.Fprintf(os.Stderr, "panic: %v\n\n%s", r, debug.Stack())
			}
		}()
		verifResetFlags(rootCmd)
		rootCmd.SetArgs(req.Args)
		if err := rootCmd.Execute(); err != nil {
			verifEmulateExitErr(err, &globalOpts)
			exit = 1
		}
	}()

	readBack := func(f *os.File) []byte {
		st, err := f.Stat()
		if err != nil || st.Size() == 0 {
			return nil
		}
		b := make([]byte, st.Size())
		n, _ := f.ReadAt(b, 0)
		return b[:n]
	}
	errBytes := readBack(errW)
	var outBytes []byte
	if ptyMaster == nil {
		outBytes = readBack(outW)
	} else {
		_, _ = outW.WriteString(verifPtyEnd)
		wg.Wait()
	}
	outW.Close()
	errW.Close()
	stdinR.Close()
	wg.Wait()
	if ptyMaster != nil {
		ptyMaster.Close()
		outBytes = outBuf.Bytes()
		if i := bytes.Index(outBytes, []byte(verifPtyEnd)); i >= 0 {
			outBytes = outBytes[:i]
		}
	}
	res = verifRes{Out: outBytes, Err: errBytes, Exit: exit, Panic: panicked}
	if sr != nil {
		res.Reads = sr.reads
	}
	return res
}
