#!/bin/bash
# usage: run.sh <property> <quick|thorough> [--replay file]
# Rebuilds the checker (cached, <1 s) and runs one property check against /repo's current working tree.
set -u
cd "$(dirname "$0")"
mkdir -p bin evidence
export GOFLAGS=-mod=mod GOPROXY=off GOTOOLCHAIN=local
if ! go build -o bin/vcheck ./cmd/vcheck 2>bin/build.err; then
  cat bin/build.err >&2
  echo "HARNESS-ERROR cannot build vcheck" >&2
  exit 3
fi
unset GOTOOLCHAIN
prop="$1"; tier="${2:-${VERIF_TIER:-quick}}"; shift; shift || true
exec bin/vcheck "$prop" --tier "$tier" "$@"
