package checks

import (
	"fmt"
	"sync/atomic"

	"verif/internal/core"
	"verif/internal/crash"
)

// faultPhase injects an I/O error (ENOSPC; EIO for fsync) into every store-mutating system call of each
// command, one at a time, on the production binary. Only the clause "an acknowledged mutation is in effect"
// is asserted: if the command still exits 0, the observable state must be exactly the state after an
// uninterrupted run. (What a failing command may leave behind under I/O errors is not asserted.)
func faultPhase(env *core.Env, check string, pre core.Store, cmds []crashCmd) map[string]interface{} {
	var injected, acked, rejected, notLanded int64
	env.Parallel(len(cmds), func(w *core.Worker, i int) {
		if !env.TimeLeft() {
			return
		}
		c := cmds[i]
		root, scratch := crashWorkdir(w)
		pre.Materialize(root)
		ref, err := crash.Run(env.Prod, root, c.Req, "", scratch)
		if err != nil {
			env.HarnessError("strace pass 0: %v", err)
		}
		if ref.Exit != 0 {
			return
		}
		after := core.ObserveW(w, root)
		normA := after.Norm(after.TitleMap())
		for _, target := range ref.Mutating() {
			call := ref.Calls[target]
			errno := "ENOSPC"
			pre.Materialize(root)
			t, err := crash.Run(env.Prod, root, c.Req, fmt.Sprintf("%s:error=%s:when=%d", call.Name, errno, call.NthOfName), scratch)
			if err != nil {
				env.HarnessError("strace: %v", err)
			}
			atomic.AddInt64(&injected, 1)
			if t.Exit != 0 {
				atomic.AddInt64(&rejected, 1)
				continue
			}
			atomic.AddInt64(&acked, 1)
			obs := core.ObserveW(w, root)
			if obs.Fail != "" || obs.Norm(obs.TitleMap()) != normA {
				sig := fmt.Sprintf("%s kind=acknowledged-but-not-in-effect-under-io-error %s", check, familyOf(c.Req))
				if env.ViolationSeen(sig) {
					continue
				}
				env.Violation(sig, fmt.Sprintf("`%s` with %s injected into %s exits 0, but the store does not show its effect (reads: %q)", c.Req.Shell(), errno, call, obs.Fail),
					map[string]interface{}{"kind": "io-error", "store": pre, "req": c.Req, "call": call.String(), "inject": fmt.Sprintf("%s:error=%s:when=%d", call.Name, errno, call.NthOfName)})
			}
		}
	})
	return map[string]interface{}{"errors_injected": injected, "command_still_exited_0": acked, "command_failed": rejected, "not_landed": notLanded,
		"rule": "ENOSPC injected (strace) into each store-mutating system call of each command, one at a time; asserted: exit 0 => observable state equals the uninterrupted run's"}
}
