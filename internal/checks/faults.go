package checks

import (
	"bytes"
	"encoding/json"
	"fmt"
	"os"
	"os/exec"
	"sort"
	"strings"
	"sync/atomic"

	"verif/internal/core"
	"verif/internal/crash"
)

// faultPhase injects an I/O error into every system call on a store file of each command (ENOSPC into the
// mutating ones, EIO into opens for reading, flock, fsync and close), one at a time, on the production binary. Only the clause "an acknowledged mutation is in effect"
// is asserted: if the command still exits 0, the observable state must be exactly the state after an
// uninterrupted run. (What a failing command may leave behind under I/O errors is not asserted.)
func faultPhase(env *core.Env, check string, pre core.Store, cmds []crashCmd) map[string]interface{} {
	var injected, acked, rejected, notLanded int64
	env.Parallel(len(cmds), func(w *core.Worker, i int) {
		if !env.TimeLeft() {
			return
		}
		c := cmds[i]
		root, scratch := crashWorkdir(w)
		pre.Materialize(root)
		ref, err := crash.Run(env.Prod, root, c.Req, "", scratch)
		if err != nil {
			env.HarnessError("strace pass 0: %v", err)
		}
		if ref.Exit != 0 {
			return
		}
		after := core.ObserveW(w, root)
		normA := after.Norm(after.TitleMap())
		for target := range ref.Calls {
			call := ref.Calls[target]
			if call.Ret < 0 {
				continue // fails in the reference run already (a probe for a file that does not exist)
			}
			errno := "ENOSPC"
			if !call.Mutating {
				errno = "EIO" // reads, locks, syncs and closes on store files
			}
			pre.Materialize(root)
			t, err := crash.Run(env.Prod, root, c.Req, fmt.Sprintf("%s:error=%s:when=%d", call.Name, errno, call.NthOfName), scratch)
			if err != nil {
				env.HarnessError("strace: %v", err)
			}
			atomic.AddInt64(&injected, 1)
			if t.Exit != 0 {
				atomic.AddInt64(&rejected, 1)
				continue
			}
			atomic.AddInt64(&acked, 1)
			obs := core.ObserveW(w, root)
			if obs.Fail != "" || obs.Norm(obs.TitleMap()) != normA {
				sig := fmt.Sprintf("%s kind=acknowledged-but-not-in-effect-under-io-error %s", check, familyOf(c.Req))
				if env.ViolationSeen(sig) {
					continue
				}
				env.Violation(sig, fmt.Sprintf("`%s` with %s injected into %s exits 0, but the store does not show its effect (reads: %q)", c.Req.Shell(), errno, call, obs.Fail),
					map[string]interface{}{"kind": "io-error", "store": pre, "req": c.Req, "call": call.String(), "inject": fmt.Sprintf("%s:error=%s:when=%d", call.Name, errno, call.NthOfName)})
			}
		}
	})
	return map[string]interface{}{"errors_injected": injected, "command_still_exited_0": acked, "command_failed": rejected, "not_landed": notLanded,
		"rule": "ENOSPC (mutating calls) / EIO (open for reading, flock, fsync, close) injected by strace into each system call on a store file of each command, one at a time; asserted: exit 0 => observable state equals the uninterrupted run's"}
}

func init() { replayers["io-error"] = replayIOError }

// ioErrReplay is the artefact of an I/O-error violation: the store, the command and the strace injection.
type ioErrReplay struct {
	Kind   string            `json:"kind"` // "io-error"
	Expect string            `json:"expect"`
	Store  map[string][]byte `json:"store"`
	Req    core.Req          `json:"req"`
	Call   string            `json:"call"`
	Inject string            `json:"inject"`
}

// failUnchangedPhase injects an I/O error (EIO) into every traced system call on a store file of each command -
// open, flock, write, fsync, close, rename - one at a time, on the production binary, and asserts the statement
// of C10 for the environment-caused failures: if the command exits non-zero, a reader sees exactly the state
// from before the command. Not asserted: calls after the rename of a rewrite (the directory sync): there the
// new log is already in place and a failing sync must be reported although the change is visible.
func failUnchangedPhase(env *core.Env, check string, pre core.Store, cmds []crashCmd) map[string]interface{} {
	var injected, failed, failedUnchanged, acked, postCommit int64
	byCall := newCounter()
	w0 := env.W0()
	pre.Materialize(w0.Proj)
	preObs := core.ObserveW(w0, w0.Proj)
	if preObs.Fail != "" {
		env.HarnessError("fault phase pre-state unreadable: %s", preObs.Fail)
	}
	preNorm := preObs.Norm(preObs.TitleMap())
	env.Parallel(len(cmds), func(w *core.Worker, i int) {
		if !env.TimeLeft() {
			return
		}
		c := cmds[i]
		root, scratch := crashWorkdir(w)
		pre.Materialize(root)
		ref, err := crash.Run(env.Prod, root, c.Req, "", scratch)
		if err != nil {
			env.HarnessError("strace pass 0: %v", err)
		}
		if ref.Exit != 0 {
			env.HarnessError("fault phase: reference run of %s fails: %s", c.Req.Shell(), ref.Err)
		}
		committed := false
		for _, call := range ref.Calls {
			if committed {
				atomic.AddInt64(&postCommit, 1)
				continue
			}
			if strings.HasPrefix(call.Name, "rename") && call.Ret == 0 {
				committed = true // the rename itself is still injected below
			}
			if call.Ret < 0 {
				continue // fails in the reference run already (e.g. probing for a file that does not exist)
			}
			inject := fmt.Sprintf("%s:error=EIO:when=%d", call.Name, call.NthOfName)
			pre.Materialize(root)
			t, err := crash.Run(env.Prod, root, c.Req, inject, scratch)
			if err != nil {
				env.HarnessError("strace: %v", err)
			}
			atomic.AddInt64(&injected, 1)
			byCall.inc(call.Name)
			if t.Exit == 0 {
				atomic.AddInt64(&acked, 1)
				continue
			}
			atomic.AddInt64(&failed, 1)
			obs := core.ObserveW(w, root)
			if obs.Fail == "" && obs.Norm(obs.TitleMap()) == preNorm {
				atomic.AddInt64(&failedUnchanged, 1)
				continue
			}
			sig := fmt.Sprintf("%s kind=failed-under-io-error-but-changed-the-store %s call=%s", check, familyOf(c.Req), call.Name)
			if os.Getenv("VERIF_DEBUG") != "" {
				fmt.Printf("debug: %s inject=%s call=%s exit=%d err=%s\n", c.Name, inject, call, t.Exit, clipS(string(t.Err), 100))
			}
			if env.ViolationSeen(sig) {
				continue
			}
			art := ioErrReplay{Kind: "io-error", Expect: "fail-unchanged", Store: pre, Req: c.Req, Call: call.String(), Inject: inject}
			if !confirmIOError(env, art, root, scratch) {
				unconfirmed.Add(1)
				continue
			}
			env.Violation(sig, fmt.Sprintf("`%s` with EIO injected into %s exits %d (%s), but the store is not what it was before (reads: %q)", c.Req.Shell(), call, t.Exit, clipS(string(t.Err), 120), obs.Fail), art)
		}
	})
	return map[string]interface{}{"errors_injected": injected, "command_failed": failed, "failed_and_unchanged": failedUnchanged, "command_still_exited_0": acked,
		"post_commit_calls_not_injected": postCommit, "injected_by_call": byCall.snapshot(),
		"rule": "EIO injected (strace) into each system call on a store file (open, flock, write, fsync, close, rename) of each command, one at a time, up to and including the rename of a rewrite; asserted: exit non-zero => observable state equals the pre-state"}
}

// confirmIOError re-runs the injection and evaluates the artefact's expectation; true = the violation reproduces.
func confirmIOError(env *core.Env, a ioErrReplay, root, scratch string) bool {
	pre := core.Store(a.Store)
	for i := 0; i < 5; i++ {
		if !ioErrorOnce(env, a, pre, root, scratch) {
			return false
		}
	}
	return true
}

func ioErrorOnce(env *core.Env, a ioErrReplay, pre core.Store, root, scratch string) bool {
	pre.Materialize(root)
	before := core.Observe(core.Spawn{Bin: env.Prod}.Run, root)
	pre.Materialize(root)
	t, err := crash.Run(env.Prod, root, a.Req, a.Inject, scratch)
	if err != nil {
		env.HarnessError("strace: %v", err)
	}
	after := core.Observe(core.Spawn{Bin: env.Prod}.Run, root)
	switch a.Expect {
	case "unchanged-whatever":
		return after.Fail != "" || after.Raw() != before.Raw()
	case "fail-unchanged":
		return t.Exit != 0 && (after.Fail != "" || after.Norm(after.TitleMap()) != before.Norm(before.TitleMap()))
	default: // acknowledged => in effect
		pre.Materialize(root)
		ref, err := crash.Run(env.Prod, root, a.Req, "", scratch)
		if err != nil || ref.Exit != 0 {
			return false
		}
		want := core.Observe(core.Spawn{Bin: env.Prod}.Run, root)
		return t.Exit == 0 && (after.Fail != "" || after.Norm(after.TitleMap()) != want.Norm(want.TitleMap()))
	}
}

func replayIOError(env *core.Env, raw json.RawMessage) bool {
	var a ioErrReplay
	if err := json.Unmarshal(raw, &a); err != nil {
		env.HarnessError("bad io-error replay: %v", err)
	}
	root, scratch := crashWorkdir(env.W0())
	fmt.Printf("  store + `%s` with strace -e inject=%s (call in the recorded run: %s)\n", a.Req.Shell(), a.Inject, a.Call)
	return confirmIOError(env, a, root, scratch)
}

// shortWritePhase runs each command under a file size limit (RLIMIT_FSIZE via prlimit) chosen so that the write that
// grows the log - or, for the rewriting commands, the temp file - is cut short after k bytes and the following write
// fails: what a disk that fills up in the middle of a write does. For every k of a grid (every line boundary of the
// batch and the bytes next to it, plus evenly spaced offsets; thorough: every byte) the command either still succeeds
// (the limit did not bite) or exits non-zero - and then a reader must see exactly the pre-state.
func shortWritePhase(env *core.Env, check string, pre core.Store, cmds []crashCmd) map[string]interface{} {
	if _, err := exec.LookPath("prlimit"); err != nil {
		return map[string]interface{}{"skipped": "prlimit not installed"}
	}
	var runs, failed, failedUnchanged, succeeded int64
	w0 := env.W0()
	pre.Materialize(w0.Proj)
	preObs := core.ObserveW(w0, w0.Proj)
	preNorm := preObs.Norm(preObs.TitleMap())
	preSize := int64(len(pre.Log()))
	type job struct {
		c     crashCmd
		limit int64
	}
	var jobs []job
	postNorm := map[string]string{} // command name -> observable state after an unlimited run
	for _, c := range cmds {
		// reference run: how much does the log grow, where are the line boundaries of what is appended
		pre.Materialize(w0.Proj)
		r := c.Req
		r.Cwd = w0.Proj
		r.RandBase = -1
		ref := w0.Spawn(r)
		if ref.Exit != 0 {
			env.HarnessError("short-write phase: reference run of %s fails: %s", c.Req.Shell(), ref.Err)
		}
		after, _ := core.Snapshot(w0.Proj)
		post := after.Log()
		refObs := core.ObserveW(w0, w0.Proj)
		postNorm[c.Name] = refObs.Norm(refObs.TitleMap())
		set := map[int64]bool{}
		add := func(n int64) {
			if n > 0 {
				set[n] = true
			}
		}
		if int64(len(post)) > preSize && bytes.HasPrefix(post, pre.Log()) { // append path: limits between the old and the new size
			batch := post[preSize:]
			L := int64(len(batch))
			for i, b := range batch {
				if b == '\n' && int64(i)+1 < L {
					add(preSize + int64(i))
					add(preSize + int64(i) + 1)
					add(preSize + int64(i) + 2)
				}
			}
			step := L / 8
			if env.Thorough() || step < 1 {
				step = 1
			}
			for k := int64(1); k < L; k += step {
				add(preSize + k)
			}
			add(preSize + L - 1)
		}
		// rewrite path (and any command that writes a new file from offset 0): limits below the size of the new log
		T := int64(len(post))
		for _, n := range []int64{1, T / 4, T / 2, preSize - 1, T - 1} {
			if n < preSize || !bytes.HasPrefix(post, pre.Log()) {
				add(n)
			}
		}
		for n := range set {
			jobs = append(jobs, job{c, n})
		}
	}
	sort.Slice(jobs, func(i, j int) bool {
		if jobs[i].c.Name != jobs[j].c.Name {
			return jobs[i].c.Name < jobs[j].c.Name
		}
		return jobs[i].limit < jobs[j].limit
	})
	env.Parallel(len(jobs), func(w *core.Worker, i int) {
		if !env.TimeLeft() {
			return
		}
		j := jobs[i]
		once := func() (core.Res, core.Obs) {
			pre.Materialize(w.Proj)
			r := j.c.Req
			r.Cwd = w.Proj
			r.RandBase = -1
			r.FsizeLimit = j.limit
			res := w.Spawn(r)
			return res, core.ObserveW(w, w.Proj)
		}
		res, obs := once()
		atomic.AddInt64(&runs, 1)
		if res.Exit == 0 {
			atomic.AddInt64(&succeeded, 1)
			// the command says it succeeded: then its whole effect must be there (the limit did not bite, or it coped)
			if obs.Fail != "" || obs.Norm(obs.TitleMap()) != postNorm[j.c.Name] {
				sig := fmt.Sprintf("%s kind=acknowledged-but-not-in-effect-on-a-short-write %s", check, familyOf(j.c.Req))
				if env.ViolationSeen(sig) {
					return
				}
				for k := 0; k < 4; k++ {
					r2, o2 := once()
					if r2.Exit != 0 || (o2.Fail == "" && o2.Norm(o2.TitleMap()) == postNorm[j.c.Name]) {
						unconfirmed.Add(1)
						return
					}
				}
				rel := j.c.Req
				rel.Cwd, rel.RandBase, rel.FsizeLimit = ".", -1, j.limit
				alt := j.c.Req
				alt.Cwd, alt.RandBase = ".", -1
				tr := mkTrace(pre, "file size limit "+fmt.Sprint(j.limit)+"; alt branch = the same command without the limit", nil)
				tr.Steps, tr.Alt = []core.Req{rel}, []core.Req{alt}
				tr.Shell = []string{fmt.Sprintf("prlimit --fsize=%d -- %s", j.limit, j.c.Req.Shell())}
				tr.FailIf = []Assert{{Kind: "exit_zero", Step: 1}, {Kind: "alt_differs_by_title", Step: 1}}
				env.Violation(sig, fmt.Sprintf("`%s` under a file size limit of %d bytes (log is %d bytes) exits 0, but the store does not show what an unlimited run leaves (reads: %q): %s",
					j.c.Req.Shell(), j.limit, preSize, obs.Fail, firstDiff(postNorm[j.c.Name], obs.Norm(obs.TitleMap()))), tr)
			}
			return
		}
		atomic.AddInt64(&failed, 1)
		if obs.Fail == "" && obs.Norm(obs.TitleMap()) == preNorm {
			atomic.AddInt64(&failedUnchanged, 1)
			return
		}
		sig := fmt.Sprintf("%s kind=failed-on-a-short-write-but-changed-the-store %s", check, familyOf(j.c.Req))
		if env.ViolationSeen(sig) {
			return
		}
		for k := 0; k < 4; k++ {
			r2, o2 := once()
			if r2.Exit == 0 || (o2.Fail == "" && o2.Norm(o2.TitleMap()) == preNorm) {
				unconfirmed.Add(1)
				return
			}
		}
		rel := j.c.Req
		rel.Cwd = "."
		rel.RandBase = -1
		rel.FsizeLimit = j.limit
		tr := mkTrace(pre, "file size limit "+fmt.Sprint(j.limit), nil)
		tr.Steps = []core.Req{rel}
		tr.Shell = []string{fmt.Sprintf("prlimit --fsize=%d -- %s", j.limit, j.c.Req.Shell())}
		tr.FailIf = []Assert{{Kind: "exit_nonzero", Step: 1}, {Kind: "obs_differs", Step: 1, Other: 0}}
		env.Violation(sig, fmt.Sprintf("`%s` under a file size limit of %d bytes (log is %d bytes) exits %d (%s), but the store is not what it was before (reads: %q): %s",
			j.c.Req.Shell(), j.limit, preSize, res.Exit, clipS(string(res.Err), 100), obs.Fail, firstDiff(preNorm, obs.Norm(obs.TitleMap()))), tr)
	})
	return map[string]interface{}{"runs": runs, "command_failed": failed, "failed_and_unchanged": failedUnchanged, "limit_did_not_bite": succeeded,
		"rule": "each command under RLIMIT_FSIZE = every line boundary of its append (+-1) and 8 evenly spaced offsets inside it (thorough: every byte), and 5 limits below the size of a rewritten log; asserted: exit non-zero => observable state equals the pre-state, exit 0 => it equals the state an unlimited run leaves"}
}

// unchangedWhateverPhase: for a command that must never change what readers see (compact), EIO is injected into every
// system call on a store file - including each read(2) of the log - one at a time; whatever the command then answers,
// a reader must see exactly the pre-state.
func unchangedWhateverPhase(env *core.Env, check string, pres []core.Store, cmd crashCmd) map[string]interface{} {
	var injected, exit0, exitN int64
	byCall := newCounter()
	env.Parallel(len(pres), func(w *core.Worker, i int) {
		pre := pres[i]
		root, scratch := crashWorkdir(w)
		pre.Materialize(root)
		before := core.ObserveW(w, root)
		if before.Fail != "" {
			return
		}
		pre.Materialize(root)
		ref, err := crash.Run(env.Prod, root, cmd.Req, "", scratch)
		if err != nil {
			env.HarnessError("strace pass 0: %v", err)
		}
		for _, call := range ref.Calls {
			if call.Ret < 0 || !env.TimeLeft() {
				continue
			}
			inject := fmt.Sprintf("%s:error=EIO:when=%d", call.Name, call.NthOfName)
			pre.Materialize(root)
			t, err := crash.Run(env.Prod, root, cmd.Req, inject, scratch)
			if err != nil {
				env.HarnessError("strace: %v", err)
			}
			atomic.AddInt64(&injected, 1)
			byCall.inc(call.Name)
			if t.Exit == 0 {
				atomic.AddInt64(&exit0, 1)
			} else {
				atomic.AddInt64(&exitN, 1)
			}
			obs := core.ObserveW(w, root)
			if obs.Fail == "" && obs.Raw() == before.Raw() {
				continue
			}
			sig := fmt.Sprintf("%s kind=%s-under-io-error-changed-the-store call=%s", check, cmd.Name, call.Name)
			if env.ViolationSeen(sig) {
				continue
			}
			art := ioErrReplay{Kind: "io-error", Expect: "unchanged-whatever", Store: pre, Req: cmd.Req, Call: call.String(), Inject: inject}
			if !confirmIOError(env, art, root, scratch) {
				unconfirmed.Add(1)
				continue
			}
			env.Violation(sig, fmt.Sprintf("`%s` with EIO injected into %s exits %d (%s); afterwards the store does not read as before (reads: %q): %s", cmd.Req.Shell(), call, t.Exit, clipS(string(t.Err), 100), obs.Fail, firstDiff(before.Raw(), obs.Raw())), art)
		}
	})
	return map[string]interface{}{"errors_injected": injected, "command_exited_0": exit0, "command_failed": exitN, "injected_by_call": byCall.snapshot(), "pre_states": len(pres),
		"rule": "EIO injected (strace) into every system call on a store file, including every read(2) of the log, one at a time; asserted whatever the exit status: the observable state is byte-identical to the pre-state"}
}
