package checks

import (
	"fmt"
	"strings"

	"verif/internal/core"
	"verif/internal/sched"
)

func init() {
	schedJudges["C07"] = func(env *core.Env, sc sched.Scenario) func(*core.Worker, *sched.Exec) (string, string) {
		return c07Judge(env, sc)
	}
}

func c07Judge(env *core.Env, sc sched.Scenario) func(w *core.Worker, ex *sched.Exec) (string, string) {
	serial := serialJudge(env, "C07", sc, false)
	return func(w *core.Worker, ex *sched.Exec) (string, string) {
		if ex.Blocked == "" && ex.Final != nil {
			ex.Final.Materialize(w.Proj)
			obs := core.ObserveW(w, w.Proj)
			if obs.Fail == "" {
				if msg := checkDepInvariants(obs); msg != "" {
					return "C07 kind=concurrent-graph-invariant " + invClass(msg), msg
				}
			}
		}
		sig, d := serial(w, ex)
		if strings.Contains(sig, "serializable-only-at-lock-section-granularity") {
			// a chain that fails half-way keeps its earlier edges: that is the atomicity finding K3 of C02/C10; C07 only
			// requires that the graph stays well-formed and that each edge is accepted/rejected correctly, which held
			return "", ""
		}
		return sig, d
	}
}

// c07Concurrent: every unordered pair of `sequence X Y` commands over 3 tasks (all 6 ordered edges, so 21
// pairs incl. identical ones) and the three-process ring A>B || B>C || C>A, under every interleaving up to the bound.
func c07Concurrent(env *core.Env, root core.Store, tasks []string) map[string]interface{} {
	var cmds []core.Req
	var names []string
	for i, a := range tasks {
		for k, b := range tasks {
			if i != k {
				cmds = append(cmds, core.R("", "--json", "sequence", a, b))
				names = append(names, fmt.Sprintf("seq-T%d-T%d", i, k))
			}
		}
	}
	st := newSchedStats()
	var jobs []schedJob
	add := func(name string, bound int, procs ...core.Req) {
		sc := sched.Scenario{Name: name, Store: root, Procs: procs}
		judge := c07Judge(env, sc)
		jobs = append(jobs, schedJob{Sc: sc, Bound: bound, Judge: func(w *core.Worker, ex *sched.Exec) (string, string) {
			sig, d := judge(w, ex)
			var parts []string
			for i, r := range ex.Results {
				parts = append(parts, fmt.Sprintf("p%d:%d", i, r.Exit))
			}
			st.Outcomes.inc(name + " " + strings.Join(parts, ","))
			if ex.Preempts == 2 {
				st.Samples.add(map[string]interface{}{"scenario": name, "schedule": ex.Schedule()})
			}
			return sig, d
		}})
	}
	bound := 2
	if env.Thorough() {
		bound = 3
	}
	for i := range cmds {
		for k := i; k < len(cmds); k++ {
			add(names[i]+"||"+names[k], bound, cmds[i], cmds[k])
		}
	}
	add("ring T0>T1||T1>T2||T2>T0", 2, core.R("", "--json", "sequence", tasks[0], tasks[1]), core.R("", "--json", "sequence", tasks[1], tasks[2]), core.R("", "--json", "sequence", tasks[2], tasks[0]))
	add("chain T0>T1>T2||T2>T0", 2, core.R("", "--json", "sequence", tasks[0], tasks[1], tasks[2]), core.R("", "--json", "sequence", tasks[2], tasks[0]))
	add("seq||rm", 2, core.R("", "--json", "sequence", tasks[0], tasks[1]), core.R("", "--json", "sequence", "rm", tasks[0], tasks[1]))
	exploreMany(env, st, "C07", jobs, 4)
	return map[string]interface{}{
		"scenarios": st.Scenarios, "schedules_executed": st.Executions, "bound_completed": st.BoundCompleted, "exhaustive": st.Exhaustive,
		"distinct_outcome_vectors": st.Outcomes.len(), "sample_schedules": st.Samples.list,
		"rule": "every unordered pair of `sequence X Y` over 3 tasks (21 pairs), the 3-process ring, chain vs closing edge, sequence vs sequence rm; every interleaving of the hooked store steps up to the preemption bound; oracle: final deps relation acyclic/mirrored + serial equivalence on the real implementation",
	}
}

func schedExhaustive(m map[string]interface{}) bool {
	if v, ok := m["exhaustive"].(bool); ok {
		return v
	}
	return true
}
