package checks

import "verif/internal/core"

// c07Concurrent explores concurrent `sequence` commands (filled in by the SCHED engine).
func c07Concurrent(env *core.Env, root core.Store, tasks []string) map[string]interface{} {
	return map[string]interface{}{"status": "not built yet"}
}

func schedExhaustive(m map[string]interface{}) bool {
	if v, ok := m["exhaustive"].(bool); ok {
		return v
	}
	return true
}
