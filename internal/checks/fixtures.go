package checks

import (
	"verif/internal/core"
)

// Rich is a store with one task in every state, two epics, a dependency, a result and pruned ids,
// built through the real CLI.
type Rich struct {
	Store      core.Store
	E1, E2     string            // E1 has children, E2 is empty
	ByState    map[string]string // state -> task id (todo task is in no epic and has no deps)
	Child      string            // todo task inside E1, depends on ByState["doing"]
	PrunedTask string
	PrunedEpic string
	Unknown    string
	N          int64
}

func (r *Rich) TaskIDs() []string {
	var ids []string
	for _, s := range c06States {
		ids = append(ids, r.ByState[s])
	}
	return append(ids, r.Child)
}

func buildRich(env *core.Env, w *core.Worker) *Rich {
	fx := NewFix(env, w)
	st := fx.Store()
	st["out.txt"] = []byte("result one\n")
	st["docs/r.md"] = []byte("# result two\n")
	st["D:emptydir"] = nil
	fx = FixFrom(env, w, st, 0)
	r := &Rich{ByState: map[string]string{}, Unknown: "ZZZZZZ"}
	// pruned items first so that their ids are tombstoned
	pe := fx.NewEpic("pruned epic")
	pt := fx.NewTask(map[string]interface{}{"title": "pruned task", "epic": pe})
	fx.Set(pt, map[string]interface{}{"state": "done"})
	fx.Must(core.R("", "--json", "prune", "--yes"))
	r.PrunedEpic, r.PrunedTask = pe, pt
	r.E1 = fx.NewEpic("E1")
	r.E2 = fx.NewEpic("E2")
	r.ByState["todo"] = fx.NewTask(map[string]interface{}{"title": "t-todo", "body": "body of todo"})
	r.ByState["doing"] = fx.NewTask(map[string]interface{}{"title": "t-doing", "epic": r.E1})
	fx.Set(r.ByState["doing"], map[string]interface{}{"state": "doing", "claim": "agent-x"})
	r.ByState["done"] = fx.NewTask(map[string]interface{}{"title": "t-done"})
	fx.Set(r.ByState["done"], map[string]interface{}{"state": "done", "result_path": "out.txt", "result_summary": "first result"})
	r.ByState["blocked"] = fx.NewTask(map[string]interface{}{"title": "t-blocked", "epic": r.E1})
	fx.Set(r.ByState["blocked"], map[string]interface{}{"state": "blocked"})
	r.ByState["canceled"] = fx.NewTask(map[string]interface{}{"title": "t-canceled"})
	fx.Set(r.ByState["canceled"], map[string]interface{}{"state": "canceled"})
	r.ByState["error"] = fx.NewTask(map[string]interface{}{"title": "t-error"})
	fx.Set(r.ByState["error"], map[string]interface{}{"state": "doing", "claim": "agent-y"})
	fx.Set(r.ByState["error"], map[string]interface{}{"state": "error"})
	r.Child = fx.NewTask(map[string]interface{}{"title": "t-child", "epic": r.E1})
	fx.Must(core.R("", "--json", "sequence", r.ByState["doing"], r.Child))
	fx.Must(core.R("", "--json", "sequence", r.E1, r.E2))
	r.Store = fx.Store()
	r.N = fx.N
	return r
}

// tornVariants returns the store with its log tail torn in a few representative ways.
func tornVariants(st core.Store) []core.Store {
	log := st.Log()
	var out []core.Store
	if len(log) < 40 {
		return nil
	}
	frag := []byte(`{"type":"state","ts":"2026`)
	out = append(out, st.WithLog(append(append([]byte{}, log...), frag...)))
	out = append(out, st.WithLog(log[:len(log)-1]))  // complete JSON, no newline
	out = append(out, st.WithLog(log[:len(log)-10])) // cut inside the last event
	return out
}
