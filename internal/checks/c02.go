package checks

import (
	"fmt"
	"os"
	"path/filepath"
	"strings"
	"sync/atomic"
	"syscall"

	"verif/internal/core"
	"verif/internal/crash"
	"verif/internal/sched"
)

func init() {
	Registry["C02"] = runC02
	schedJudges["C02"] = func(env *core.Env, sc sched.Scenario) func(*core.Worker, *sched.Exec) (string, string) {
		return c02Judge(env, sc)
	}
}

type c02Cmd struct {
	Name string
	Hot  bool
	Mk   func(f *concFix, k int) core.Req // k = process index (keeps created titles distinct)
}

func c02Alphabet() []c02Cmd {
	j := func(args ...string) func(string) core.Req {
		return func(in string) core.Req { return core.R("", args...).In(in) }
	}
	_ = j
	return []c02Cmd{
		{"new-task", false, func(f *concFix, k int) core.Req {
			return core.R("", "--json", "new", "task").In(fmt.Sprintf(`{"title":"N%d"}`, k))
		}},
		{"new-task{claim}", false, func(f *concFix, k int) core.Req {
			return core.R("", "--json", "new", "task").In(fmt.Sprintf(`{"title":"NC%d","claim":"creator%d"}`, k, k))
		}},
		{"new-epic", false, func(f *concFix, k int) core.Req {
			return core.R("", "--json", "new", "epic").In(fmt.Sprintf(`{"title":"NE%d"}`, k))
		}},
		{"set{state}", false, func(f *concFix, k int) core.Req { return core.R("", "--json", "set", f.T2).In(`{"state":"done"}`) }},
		{"set{title,body,claim}", false, func(f *concFix, k int) core.Req {
			return core.R("", "--json", "set", f.T1).In(fmt.Sprintf(`{"title":"T1","body":"body by %d","claim":"setter%d"}`, k, k))
		}},
		{"set{result,state}", false, func(f *concFix, k int) core.Req {
			return core.R("", "--json", "set", f.T2).In(`{"result_path":"out.txt","result_summary":"done it","state":"done"}`)
		}},
		{"claim", true, func(f *concFix, k int) core.Req { return claimReq(fmt.Sprintf("agent%d", k)) }},
		{"claim-id", true, func(f *concFix, k int) core.Req {
			return core.R("", "--json", "claim", f.T2, "--agent", fmt.Sprintf("byid%d", k))
		}},
		{"sequence-T1-T2", true, func(f *concFix, k int) core.Req { return core.R("", "--json", "sequence", f.T1, f.T2) }},
		{"sequence-T2-T1", true, func(f *concFix, k int) core.Req { return core.R("", "--json", "sequence", f.T2, f.T1) }},
		{"sequence-rm", false, func(f *concFix, k int) core.Req { return core.R("", "--json", "sequence", "rm", f.T1, f.T2) }},
		{"sequence-chain", false, func(f *concFix, k int) core.Req { return core.R("", "--json", "sequence", f.T1, f.T2, f.T3) }},
		{"plan", true, func(f *concFix, k int) core.Req {
			return core.R("", "--json", "plan").In(fmt.Sprintf(`{"title":"P%d","tasks":[{"title":"pa%d"},{"title":"pb%d","after":["pa%d"]}]}`, k, k, k, k))
		}},
		{"prune", true, func(f *concFix, k int) core.Req { return core.R("", "--json", "prune", "--yes") }},
		{"compact", true, func(f *concFix, k int) core.Req { return core.R("", "--json", "compact") }},
		{"init", false, func(f *concFix, k int) core.Req { return core.R("", "--json", "init") }},
		{"reopen", true, func(f *concFix, k int) core.Req { return core.R("", "--json", "set", f.T4).In(`{"state":"todo"}`) }},
		{"new-task-in-E2", false, func(f *concFix, k int) core.Req {
			return core.R("", "--json", "new", "task").In(fmt.Sprintf(`{"title":"NI%d","epic":"%s"}`, k, f.E2))
		}},
		{"unclaim", true, func(f *concFix, k int) core.Req { return core.R("", "--json", "set", f.T1).In(`{"claim":""}`) }},
		{"set{state:doing}", true, func(f *concFix, k int) core.Req {
			return core.R("", "--json", "--agent", fmt.Sprintf("doer%d", k), "set", f.T1).In(`{"state":"doing"}`)
		}},
	}
}

func c02Judge(env *core.Env, sc sched.Scenario) func(w *core.Worker, ex *sched.Exec) (string, string) {
	inner := serialJudge(env, "C02", sc, false)
	return func(w *core.Worker, ex *sched.Exec) (string, string) {
		sig, d := inner(w, ex)
		if strings.Contains(sig, "site=") { // normalise each composite site to its family
			i := strings.Index(sig, "site=")
			var fam []string
			for _, site := range strings.Split(sig[i+5:], "+") {
				switch {
				case strings.HasPrefix(site, "new-task"):
					fam = appendUniq(fam, "new-task-with-follow-up")
				case strings.HasPrefix(site, "set"):
					fam = appendUniq(fam, "set-result-then-rest")
				case strings.HasPrefix(site, "sequence"):
					fam = appendUniq(fam, "sequence-chain")
				}
			}
			sig = sig[:i] + "site=" + strings.Join(fam, ",")
		}
		return sig, d
	}
}

func runC02(env *core.Env) {
	f := buildConcFix(env)
	alpha := c02Alphabet()
	type pair struct {
		a, b  int
		store string
	}
	var pairs []pair
	for i := range alpha {
		for k := i; k < len(alpha); k++ {
			pairs = append(pairs, pair{i, k, "S_A"})
		}
	}
	st := newSchedStats()
	var jobs []schedJob
	run := func(name string, store core.Store, bound int, procs ...core.Req) {
		sc := sched.Scenario{Name: name, Store: store, Procs: procs}
		judge := c02Judge(env, sc)
		jobs = append(jobs, schedJob{Sc: sc, Bound: bound, Judge: func(w *core.Worker, ex *sched.Exec) (string, string) {
			sig, d := judge(w, ex)
			var parts []string
			for i, r := range ex.Results {
				parts = append(parts, fmt.Sprintf("p%d:%d", i, r.Exit))
			}
			st.Outcomes.inc(name + " " + strings.Join(parts, ","))
			if ex.Preempts == 2 {
				st.Samples.add(map[string]interface{}{"scenario": name, "schedule": ex.Schedule()})
			}
			return sig, d
		}})
	}
	// a store whose .ergo/ exists but holds no log yet: init racing with the first writer
	bare := core.Store{"D:.ergo": nil, ".ergo/lock": {}}
	run("init||new-task/no-log-yet", bare, 2, core.R("", "--json", "init"), core.R("", "--json", "new", "task").In(`{"title":"first"}`))
	run("init||init/no-log-yet", bare, 2, core.R("", "--json", "init"), core.R("", "--json", "init"))
	// missing lock file: two writers both recreate it
	nolock := f.SA.Clone()
	delete(nolock, ".ergo/lock")
	run("claim||claim/lock-file-missing", nolock, 2, claimReq("a1"), claimReq("a2"))
	run("new-task||set/lock-file-missing", nolock, 2, core.R("", "--json", "new", "task").In(`{"title":"N0"}`), core.R("", "--json", "set", f.T2).In(`{"state":"done"}`))
	// the legacy file name: commands that rewrite the log against commands that append to it
	leg := legacyNamed(f.SA)
	for _, rw := range []int{12, 14} { // plan, compact
		for _, ap := range []int{0, 3, 6, 8} { // new task, set{state}, claim, sequence
			run(alpha[rw].Name+"||"+alpha[ap].Name+"/S_A-legacy-file", leg, 2, alpha[rw].Mk(f, 0), alpha[ap].Mk(f, 1))
		}
	}
	for _, p := range pairs {
		a, b := alpha[p.a], alpha[p.b]
		bound := 1
		if a.Hot && b.Hot {
			bound = 2
		}
		if env.Thorough() {
			bound = 3 // every pair; the quick tier keeps bound 2 for the single-section, conflict-prone commands
		}
		store := f.SA
		name := a.Name + "||" + b.Name
		if strings.Contains(name, "unclaim") || strings.Contains(name, "state:doing") {
			store = f.SHeld // T1 doing, claimed by holder
			name += "/S_held"
		}
		run(name, store, bound, a.Mk(f, 0), b.Mk(f, 1))
	}
	// creation with a follow-up in the other two input modes (their own branches in the code) against a claimer
	run("new-task-bodystdin{claim}||claim/S_A", f.SA, 2, core.R("", "--json", "new", "task", "--title", "NB0", "--claim", "creator0", "--body-stdin").In("body"), claimReq("a1"))
	run("new-task-flags{claim}||claim/S_A", f.SA, 2, core.R("", "--json", "new", "task", "--title", "NF0", "--claim", "creator0"), claimReq("a1"))
	run("new-task-bodystdin{state}||prune/S_A", f.SA, 2, core.R("", "--json", "new", "task", "--title", "ND0", "--state", "done", "--body-stdin").In("body"), core.R("", "--json", "prune", "--yes"))
	// dependency-sensitive pairs on S_dep and triples over the hottest commands
	run("sequence-rm||claim/S_dep", f.SDep, 2, core.R("", "--json", "sequence", "rm", f.T1, f.T2), claimReq("a1"))
	// init re-run on a live store while one writer is inside its lock section and another one arrives
	run("claim||init||claim/S_A", f.SA, 2, claimReq("a1"), core.R("", "--json", "init"), claimReq("a2"))
	run("new-task||init||set/S_A", f.SA, 1, core.R("", "--json", "new", "task").In(`{"title":"N0"}`), core.R("", "--json", "init"), core.R("", "--json", "set", f.T2).In(`{"state":"done"}`))
	run("prune||reopen||claim/S_A", f.SA, 1, core.R("", "--json", "prune", "--yes"), core.R("", "--json", "set", f.T4).In(`{"state":"todo"}`), claimReq("a1"))
	run("compact||new-task||set/S_A", f.SA, 1, core.R("", "--json", "compact"), core.R("", "--json", "new", "task").In(`{"title":"N0"}`), core.R("", "--json", "set", f.T2).In(`{"state":"done"}`))
	run("plan||claim||compact/S_A", f.SA, 1, core.R("", "--json", "plan").In(`{"title":"P0","tasks":[{"title":"pa"},{"title":"pb","after":["pa"]}]}`), claimReq("a1"), core.R("", "--json", "compact"))
	if env.Thorough() {
		run("seq-ring A>B||B>C||C>A", f.SA, 2, core.R("", "--json", "sequence", f.T1, f.T2), core.R("", "--json", "sequence", f.T2, f.T3), core.R("", "--json", "sequence", f.T3, f.T1))
	}
	// acknowledged writes under I/O errors and short writes (one command at a time, production binary); cheap, so first
	var fcmds []crashCmd
	for _, a := range alpha {
		fcmds = append(fcmds, crashCmd{a.Name, a.Mk(f, 0)})
	}
	st.PerScenario["io-error-phase"] = faultPhase(env, "C02", f.SA, fcmds)
	st.PerScenario["short-write-phase"] = shortWritePhase(env, "C02", f.SA, fcmds)
	st.PerScenario["held-lock-phase"] = c02HeldLock(env, f.SA, fcmds)
	// requests that must be refused (a field too large for a log line): refused means the log is byte-identical
	{
		w := env.W0()
		huge := strings.Repeat("h", 10*1024*1024+64)
		var refused int
		for _, r := range []core.Req{
			core.R("", "--json", "new", "task").In(jsonStr(map[string]string{"title": "big", "body": huge})),
			core.R("", "--json", "new", "task", "--title", "big", "--body-stdin").In(huge),
			core.R("", "--json", "set", f.T1).In(jsonStr(map[string]string{"body": huge, "state": "blocked"})),
			core.R("", "--json", "new", "epic").In(jsonStr(map[string]string{"title": huge})),
		} {
			f.SA.Materialize(w.Proj)
			q := r
			q.Cwd = w.Proj
			res := w.Run(q)
			after, _ := core.Snapshot(w.Proj)
			if res.Exit != 0 {
				refused++
				if string(after.Log()) != string(f.SA.Log()) {
					report(env, "C02 kind=refused-command-changed-the-log cmd="+opClass(r), fmt.Sprintf("`%s ...` exits %d (%s) but the log went from %d to %d bytes", strings.Join(r.Args, " "), res.Exit, clipS(string(res.Err), 80), len(f.SA.Log()), len(after.Log())),
						mkTrace(f.SA, "over-long field", []core.Req{r}, Assert{Kind: "exit_nonzero", Step: 1}, Assert{Kind: "log_differs", Step: 1, Other: 0}))
				}
			}
		}
		st.PerScenario["refused-oversize-requests"] = map[string]interface{}{"requests": 4, "refused": refused}
	}
	exploreMany(env, st, "C02", jobs, 8)
	finishSched(env, st, "every unordered pair over a 20-command alphabet (new, new with claim, set with 1/3/result fields, claim, claim <id>, sequence, sequence rm, chain, plan, prune, compact, init, reopen, unclaim, ...) plus init/lock-file-missing races and triples, every interleaving of their hooked steps up to the preemption bound (1; 2 on the hot list); oracle: some order of the commands that exited 0, consistent with real time, reproduces replies and final observable state when run one at a time on the real code; log is whole JSON lines; nobody blocks in flock")
}

func appendUniq(xs []string, x string) []string {
	if contains(xs, x) {
		return xs
	}
	return append(xs, x)
}

// c02HeldLock: "a command never blocks waiting for the lock" without a clock. The harness holds the exclusive flock on
// .ergo/lock for the whole run of each command (production binary under strace). The command must try the lock at most
// once (a second attempt after EAGAIN is waiting for it, however short the pause) and must leave every file of the store
// as it was; if it touched the lock at all it must exit non-zero (init on an existing store has nothing to serialise
// and succeeds without the lock - changing nothing).
func c02HeldLock(env *core.Env, pre core.Store, cmds []crashCmd) map[string]interface{} {
	var runs, attempts int64
	env.Parallel(len(cmds), func(w *core.Worker, i int) {
		c := cmds[i]
		root, scratch := crashWorkdir(w)
		once := func() (n int, exit int, changed string, herr error) {
			if err := pre.Materialize(root); err != nil {
				return 0, 0, "", err
			}
			lf, err := os.OpenFile(filepath.Join(root, ".ergo", "lock"), os.O_RDWR, 0)
			if err != nil {
				return 0, 0, "", err
			}
			defer lf.Close()
			if err := syscall.Flock(int(lf.Fd()), syscall.LOCK_EX|syscall.LOCK_NB); err != nil {
				return 0, 0, "", err
			}
			tr, err := crash.Run(env.Prod, root, c.Req, "", scratch)
			syscall.Flock(int(lf.Fd()), syscall.LOCK_UN)
			if err != nil {
				return 0, 0, "", err
			}
			for _, call := range tr.Calls {
				if call.Name == "flock" && !strings.Contains(call.Args, "LOCK_UN") {
					n++
				}
			}
			after, _ := core.Snapshot(root)
			return n, tr.Exit, c10Diff(pre, after), nil
		}
		n, exit, changed, err := once()
		if err != nil {
			env.HarnessError("held-lock phase: %v", err)
		}
		atomic.AddInt64(&runs, 1)
		atomic.AddInt64(&attempts, int64(n))
		kind, detail := "", ""
		switch {
		case exit == 0 && changed != "":
			kind, detail = "wrote-although-the-lock-was-held", "exit 0 and the store changed ("+changed+") while another descriptor held the exclusive lock for the whole run"
		case exit == 0:
			// nothing written: a command that has nothing to serialise (init on an existing store) may well succeed
		case changed != "":
			kind, detail = "lock-busy-but-changed-the-store", "exit "+fmt.Sprint(exit)+" under a held lock, yet the store changed: "+changed
		case n > 1:
			kind, detail = "command-waits-for-the-lock", fmt.Sprintf("%d attempts to take the lock while it was held (after the first EAGAIN the command kept trying)", n)
		}
		if kind == "" {
			return
		}
		sig := "C02 kind=" + kind + " cmd=" + c.Name
		if env.ViolationSeen(sig) {
			return
		}
		for k := 0; k < 4; k++ { // the same four more times
			n2, exit2, changed2, err := once()
			if err != nil || (exit2 == 0) != (exit == 0) || (changed2 != "") != (changed != "") || (n2 > 1) != (n > 1) {
				env.Logf("UNCONFIRMED held-lock candidate %s", sig)
				unconfirmed.Add(1)
				return
			}
		}
		held := c.Req
		held.HoldLock = true
		env.Violation(sig, fmt.Sprintf("`%s` while the harness holds the flock on .ergo/lock: %s", c.Req.Shell(), detail),
			mkTrace(pre, "held lock: "+detail, []core.Req{held}, Assert{Kind: "exit_nonzero", Step: 1}))
	})
	return map[string]interface{}{"commands": len(cmds), "runs": runs, "lock_attempts_seen": attempts,
		"rule": "each command of the alphabet with the store lock held by another descriptor for its whole run (production binary, strace): at most one attempt to take the lock, store byte-identical (exit 0 only for a command that writes nothing)"}
}
