package checks

import (
	"encoding/json"
	"fmt"
	"regexp"
	"sort"
	"strings"
	"sync"
	"sync/atomic"

	"verif/internal/core"
)

var unconfirmed atomic.Int64

// Fix builds a store through real CLI commands on a worker's project dir, with scripted ids.
type Fix struct {
	W     *core.Worker
	Env   *core.Env
	N     int64 // rand counter (number of ids handed out so far)
	Steps []core.Req
}

func NewFix(env *core.Env, w *core.Worker) *Fix {
	f := &Fix{W: w, Env: env}
	if err := (core.Store{}).Materialize(w.Proj); err != nil {
		env.HarnessError("materialize: %v", err)
	}
	f.Must(core.R(w.Proj, "init"))
	return f
}

// FixFrom starts from an existing store.
func FixFrom(env *core.Env, w *core.Worker, st core.Store, n int64) *Fix {
	if err := st.Materialize(w.Proj); err != nil {
		env.HarnessError("materialize: %v", err)
	}
	return &Fix{W: w, Env: env, N: n}
}

func (f *Fix) Run(r core.Req) core.Res {
	r.Cwd = f.W.Proj
	if r.RandBase < 0 {
		r.RandBase = f.N
	}
	res := f.W.Run(r)
	f.N += int64(res.Reads)
	f.Steps = append(f.Steps, r)
	return res
}

func (f *Fix) Must(r core.Req) core.Res {
	res := f.Run(r)
	if res.Exit != 0 {
		f.Env.HarnessError("fixture command failed: %s: %s", r.Shell(), res)
	}
	return res
}

func jsonStr(v interface{}) string {
	b, _ := json.Marshal(v)
	return string(b)
}

func idOf(res core.Res) string {
	var o struct {
		ID string `json:"id"`
	}
	json.Unmarshal(res.Out, &o)
	return o.ID
}

func (f *Fix) NewTask(fields map[string]interface{}, extra ...string) string {
	args := append([]string{"--json"}, extra...)
	args = append(args, "new", "task")
	res := f.Must(core.R("", args...).In(jsonStr(fields)))
	id := idOf(res)
	if id == "" {
		f.Env.HarnessError("no id in %s", res)
	}
	return id
}

func (f *Fix) NewEpic(title string) string {
	res := f.Must(core.R("", "--json", "new", "epic").In(jsonStr(map[string]interface{}{"title": title})))
	return idOf(res)
}

func (f *Fix) Set(id string, fields map[string]interface{}, extra ...string) core.Res {
	args := append([]string{"--json"}, extra...)
	args = append(args, "set", id)
	return f.Must(core.R("", args...).In(jsonStr(fields)))
}

func (f *Fix) Store() core.Store {
	st, err := core.Snapshot(f.W.Proj)
	if err != nil {
		f.Env.HarnessError("snapshot: %v", err)
	}
	return st
}

// countCreates is the default rand counter for a store: ids handed out so far is at least the
// number of create events; scripted ids are a pure function of the counter, so a collision with a
// live id is simply retried by ergo with the next counter value.
func countCreates(log []byte) int64 {
	return int64(strings.Count(string(log), `"type":"new_task"`) + strings.Count(string(log), `"type":"new_epic"`))
}

// sampleSet keeps a bounded number of distinct samples.
type sampleSet struct {
	mu   sync.Mutex
	max  int
	list []interface{}
}

func (s *sampleSet) add(v interface{}) {
	s.mu.Lock()
	if len(s.list) < s.max {
		s.list = append(s.list, v)
	}
	s.mu.Unlock()
}

type counter struct {
	mu sync.Mutex
	m  map[string]int
}

func newCounter() *counter { return &counter{m: map[string]int{}} }
func (c *counter) inc(k string) {
	c.mu.Lock()
	c.m[k]++
	c.mu.Unlock()
}
func (c *counter) len() int { c.mu.Lock(); defer c.mu.Unlock(); return len(c.m) }
func (c *counter) snapshot() map[string]int {
	c.mu.Lock()
	defer c.mu.Unlock()
	o := map[string]int{}
	for k, v := range c.m {
		o[k] = v
	}
	return o
}
func (c *counter) keys() []string {
	c.mu.Lock()
	defer c.mu.Unlock()
	var ks []string
	for k := range c.m {
		ks = append(ks, k)
	}
	sort.Strings(ks)
	return ks
}

// conformance: re-run a list of (store, request) pairs through spawned processes and require the same
// exit code, stdout and stderr (timestamps blanked). Requests that draw ids use the verif binary with the
// same scripted source; all others use the untagged production binary.
type confCase struct {
	Store core.Store
	Req   core.Req
	Got   core.Res
	Root  string // project root the request ran in
}

var tsAny = regexp.MustCompile(`\d{4}-\d{2}-\d{2}T\d{2}:\d{2}:\d{2}(\.\d+)?Z`)

type conformer struct {
	mu    sync.Mutex
	cases []confCase
	every int
	n     int
	cap   int
}

func newConformer(every, cap int) *conformer { return &conformer{every: every, cap: cap} }

func (c *conformer) offer(root string, st core.Store, r core.Req, got core.Res) {
	c.mu.Lock()
	defer c.mu.Unlock()
	c.n++
	if c.every > 1 && c.n%c.every != 0 {
		return
	}
	if len(c.cases) >= c.cap {
		return
	}
	c.cases = append(c.cases, confCase{st, r, got, root})
}

// sizeRe: the byte count in "event too large (N bytes" includes the event's timestamps, whose length varies
// (RFC3339Nano drops trailing zeros), so it is not comparable between two runs.
var sizeRe = regexp.MustCompile(`event too large \(\d+ bytes`)

func blankTS(b []byte) string {
	return sizeRe.ReplaceAllString(tsAny.ReplaceAllString(string(b), "<TS>"), "event too large (<N> bytes")
}

// run validates all collected cases; returns how many were validated. Any mismatch is a harness error.
func (c *conformer) run(env *core.Env) int {
	var bad atomic.Int64
	var firstMu sync.Mutex
	first := ""
	env.Parallel(len(c.cases), func(w *core.Worker, i int) {
		cs := c.cases[i]
		root := w.Dir + "/conf"
		if err := cs.Store.Materialize(root); err != nil {
			env.HarnessError("materialize: %v", err)
		}
		r := cs.Req
		rel := strings.TrimPrefix(r.Cwd, cs.Root)
		r.Cwd = root + rel
		r.Args = append([]string{}, r.Args...)
		for k, a := range r.Args { // absolute paths given as arguments (--dir) must follow the relocation
			r.Args[k] = strings.ReplaceAll(a, cs.Root, root)
		}
		bin := env.Prod
		if r.RandBase >= 0 {
			bin = env.Verif
		}
		a := fmt.Sprintf("exit=%d\nout=%s\nerr=%s", cs.Got.Exit, blankTS(cs.Got.Out), sortParts(blankTS(cs.Got.Err)))
		a = strings.ReplaceAll(a, cs.Root, "<ROOT>")
		spawn := func() string {
			got := core.Spawn{Bin: bin}.Run(r)
			b := fmt.Sprintf("exit=%d\nout=%s\nerr=%s", got.Exit, blankTS(got.Out), sortParts(blankTS(got.Err)))
			return strings.ReplaceAll(b, root, "<ROOT>")
		}
		b := spawn()
		if a != b {
			// Is it the harness, or do the commands themselves answer differently from run to run on this store? The
			// spawned request up to 8 more times on the re-materialised store: if the spawned binary disagrees with
			// itself, or agrees with the server after all, the difference is not the server's (the checks' own
			// confirmation, which counts reproductions, decides what is reported).
			for k := 0; k < 8; k++ {
				cs.Store.Materialize(root)
				if b2 := spawn(); b2 != b || b2 == a {
					conformanceVaried.Add(1)
					return
				}
			}
			bad.Add(1)
			firstMu.Lock()
			if first == "" {
				first = fmt.Sprintf("request %s\n--- server\n%s\n--- spawned %s\n%s", cs.Req.Shell(), a, bin, b)
			}
			firstMu.Unlock()
		}
	})
	if v := conformanceVaried.Load(); v > 0 {
		env.Logf("conformance: in %d case(s) the spawned binary did not repeat its own answer on the same store (not counted as a harness fault)", v)
	}
	if bad.Load() > 0 {
		env.HarnessError("conformance: %d of %d traces differ between the in-process server and spawned binaries; first:\n%s", bad.Load(), len(c.cases), first)
	}
	return len(c.cases)
}

// conformanceVaried counts conformance cases in which the spawned binary did not repeat its own answer.
var conformanceVaried atomic.Int64

var idRe = regexp.MustCompile(`\b[A-Z2-7]{6}\b`)

// sortParts orders the "; "-separated parts of each stderr line: ergo joins validation problems in map
// iteration order, which differs between two runs of the same command (not a property of any check here).
func sortParts(s string) string {
	lines := strings.Split(s, "\n")
	for i, ln := range lines {
		parts := strings.Split(ln, "; ")
		sort.Strings(parts)
		lines[i] = strings.Join(parts, "; ")
	}
	return strings.Join(lines, "\n")
}

// canonLogKey is the no-abstraction state key: the whole normalised history.
func canonLogKey(w *core.Worker, st core.Store) (string, interface{}) {
	k := core.CanonLog(st.Log()) + "|" + st.LogName()
	var other []string
	for f, b := range st { // leftovers of crashed rewrites etc. are part of the state
		if strings.HasPrefix(f, ".ergo/") && f != st.LogName() && f != ".ergo/lock" {
			other = append(other, f+"="+core.CanonLog(b))
		}
	}
	sort.Strings(other)
	return k + "|" + strings.Join(other, ","), nil
}

// graphKey is the canonical labelled graph of a store as a reader sees it: items in creation order,
// each with kind, state, claimed?, epic (as index), deps (as indices); plus the number of tombstones in the
// log. Titles, bodies, ids, timestamps and history are dropped: the commands explored with this key
// (sequence/set epic/state/prune/claim/new) take their decisions from exactly these fields.
func graphKey(w *core.Worker, st core.Store) (string, interface{}) {
	obs := core.ObserveW(w, w.Proj)
	if obs.Fail != "" {
		return "FAIL:" + core.CanonLog(st.Log()), obs
	}
	type row struct {
		id, created string
	}
	var rows []row
	for id, sh := range obs.Shows {
		rows = append(rows, row{id, sh.CreatedAt})
	}
	sort.Slice(rows, func(i, j int) bool {
		if rows[i].created != rows[j].created {
			return core.TSLess(rows[i].created, rows[j].created)
		}
		return rows[i].id < rows[j].id
	})
	idx := map[string]int{}
	for i, r := range rows {
		idx[r.id] = i
	}
	ref := func(id string) string {
		if id == "" {
			return "-"
		}
		if i, ok := idx[id]; ok {
			return fmt.Sprint(i)
		}
		return "DANGLING"
	}
	var sb strings.Builder
	for i, r := range rows {
		sh := obs.Shows[r.id]
		it, _ := obs.Item(r.id)
		var deps []string
		for _, d := range sh.Deps {
			deps = append(deps, ref(d))
		}
		sort.Strings(deps)
		fmt.Fprintf(&sb, "%d:%s,%s,c=%v,e=%s,d=%v,r=%d;", i, it.Kind, sh.State, sh.ClaimedBy != "", ref(sh.EpicID), deps, len(sh.Results))
	}
	fmt.Fprintf(&sb, "tomb=%d", strings.Count(string(st.Log()), `"type":"tombstone"`))
	return sb.String(), obs
}
