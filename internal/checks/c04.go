package checks

import (
	"encoding/json"
	"fmt"
	"os"
	"path/filepath"
	"sort"
	"strings"
	"sync/atomic"

	"verif/internal/core"
	"verif/internal/crash"
)

func init() {
	Registry["C04"] = runC04
	replayers["crash"] = replayCrash
}

type crashCmd struct {
	Name string
	Req  core.Req
}

// crashReplay is the artefact of a crash-point violation.
type crashReplay struct {
	Kind   string            `json:"kind"` // "crash"
	Check  string            `json:"check"`
	Store  map[string][]byte `json:"store"`
	Req    core.Req          `json:"req"`
	Target int               `json:"kill_on_entry_to_call"`
	Call   string            `json:"call"`
	TornBy int               `json:"torn_bytes_kept,omitempty"`
	Follow []core.Req        `json:"follow_ups,omitempty"`
	Shell  string            `json:"shell"`
	Note   string            `json:"note"`
}

// familyOf names the command family (composite call sites get their K-site name).
func familyOf(req core.Req) string {
	if ss := sections(req); ss != nil {
		switch cls := opClass(req); {
		case strings.HasPrefix(cls, "new-task"):
			return "site=new-task-with-follow-up"
		case strings.HasPrefix(cls, "set"):
			return "site=set-result-then-rest"
		case strings.HasPrefix(cls, "sequence"):
			return "site=sequence-chain"
		}
	}
	cls := opClass(req)
	if strings.HasPrefix(cls, "set") {
		return "cmd=set"
	}
	return "cmd=" + cls
}

func c04Commands(f *concFix) []crashCmd {
	var out []crashCmd
	add := func(name string, r core.Req) { out = append(out, crashCmd{name, r}) }
	add("claim", claimReq("ag"))
	add("claim--epic", claimReq("ag", "--epic", f.E1))
	add("claim-id", core.R("", "--json", "claim", f.T2, "--agent", "ag"))
	vals := map[string]interface{}{"title": "renamed", "body": "new body text", "epic": f.E1, "claim": "ag", "state": "blocked"}
	fields := []string{"title", "body", "epic", "claim", "state"}
	for mask := 1; mask < 32; mask++ {
		m := map[string]interface{}{}
		var ks []string
		for i, k := range fields {
			if mask&(1<<i) != 0 {
				m[k] = vals[k]
				ks = append(ks, k)
			}
		}
		nEvents := len(ks)
		if _, c := m["claim"]; c {
			if _, s := m["state"]; !s {
				nEvents++ // claim implies a state event
			}
		}
		if nEvents < 2 {
			continue
		}
		add("set{"+strings.Join(ks, ",")+"}", core.R("", "--json", "set", f.T1).In(jsonStr(m)))
	}
	add("set-flags{title,state,claim}", core.R("", "--json", "set", f.T1, "--title", "renamed", "--state", "doing", "--claim", "ag"))
	add("set--agent{state:doing}", core.R("", "--json", "--agent", "ag", "set", f.T1).In(`{"state":"doing"}`))
	add("set{title,5KB-body,claim,state}", core.R("", "--json", "set", f.T1).In(jsonStr(map[string]string{"title": "renamed", "body": strings.Repeat("0123456789", 520), "claim": "ag", "state": "blocked"})))
	add("set{title,100KB-body,claim,state}", core.R("", "--json", "set", f.T1).In(jsonStr(map[string]string{"title": "renamed", "body": strings.Repeat("0123456789", 10200), "claim": "ag", "state": "blocked"})))
	add("new-task{300KB-body,claim,state}", core.R("", "--json", "new", "task").In(jsonStr(map[string]string{"title": "NB3", "body": strings.Repeat("abcdefghij", 30700), "claim": "creator", "state": "blocked"})))
	add("set{1.2MB-body,state}", core.R("", "--json", "set", f.T1).In(jsonStr(map[string]string{"body": strings.Repeat("0123456789", 123000), "state": "blocked"})))
	add("new-task{100KB-body,claim}", core.R("", "--json", "new", "task").In(jsonStr(map[string]string{"title": "NB", "body": strings.Repeat("abcdefghij", 10200), "claim": "creator"})))
	add("prune", core.R("", "--json", "prune", "--yes"))
	add("plan-2", core.R("", "--json", "plan").In(`{"title":"P","tasks":[{"title":"pa"},{"title":"pb","after":["pa"]}]}`))
	add("plan-3", core.R("", "--json", "plan").In(`{"title":"P","body":"b","tasks":[{"title":"pa"},{"title":"pb","after":["pa"]},{"title":"pc","after":["pa","pb"]}]}`))
	add("compact", core.R("", "--json", "compact"))
	// composite commands (several lock sections): known findings K1-K3
	add("new-task{claim}", core.R("", "--json", "new", "task").In(`{"title":"NC","claim":"creator"}`))
	add("new-task{state}", core.R("", "--json", "new", "task").In(`{"title":"NS","state":"done"}`))
	add("new-task{result,state}", core.R("", "--json", "new", "task").In(`{"title":"NR","result_path":"out.txt","result_summary":"s","state":"done"}`))
	add("new-task-flags{claim}", core.R("", "--json", "new", "task", "--title", "NF", "--claim", "creator"))
	add("set{result,state}", core.R("", "--json", "set", f.T2).In(`{"result_path":"out.txt","result_summary":"did it","state":"done"}`))
	add("sequence-chain", core.R("", "--json", "sequence", f.T1, f.T2, f.T3))
	// single-event commands (nothing to be half-way through, but the same oracle must hold)
	add("new-task", core.R("", "--json", "new", "task").In(`{"title":"plain"}`))
	add("sequence", core.R("", "--json", "sequence", f.T1, f.T2))
	return out
}

// crashWorkdir prepares a private project dir + strace scratch for a worker.
func crashWorkdir(w *core.Worker) (root, scratch string) {
	root = filepath.Join(w.Dir, "crashproj")
	scratch = filepath.Join(w.Dir, "crashscratch")
	os.MkdirAll(root, 0o755)
	os.MkdirAll(scratch, 0o755)
	return
}

// killAtRetry lands a kill on the target call (5 tries; strace counts per thread). ok=false: could not.
func killAtRetry(env *core.Env, root, scratch string, pre core.Store, req core.Req, ref *crash.Trace, target int) (core.Store, bool) {
	for try := 0; try < 5; try++ {
		if err := pre.Materialize(root); err != nil {
			env.HarnessError("materialize: %v", err)
		}
		ok, _, err := crash.KillAt(env.Prod, root, req, ref, target, scratch)
		if err != nil {
			env.HarnessError("strace: %v", err)
		}
		if ok {
			st, err := core.Snapshot(root)
			if err != nil {
				env.HarnessError("snapshot: %v", err)
			}
			return st, true
		}
	}
	return nil, false
}

func runC04(env *core.Env) {
	f := buildConcFix(env)
	w0 := env.W0()
	pres := []core.Store{f.SA}
	preNames := []string{"S_A"}
	{
		leg := f.SA.Clone()
		leg[".ergo/events.jsonl"] = leg[".ergo/plans.jsonl"]
		delete(leg, ".ergo/plans.jsonl")
		pres = append(pres, leg)
		preNames = append(preNames, "S_A-legacy-file")
		fx := FixFrom(env, w0, f.SA, 100)
		fx.Set(f.T2, map[string]interface{}{"state": "canceled"})
		fx.Must(core.R("", "--json", "compact"))
		pres = append(pres, fx.Store())
		preNames = append(preNames, "S_A-compacted+T2-canceled")
	}
	{
		l := newSynLog()
		for i := 0; i < 45; i++ {
			id := core.IDFor(int64(300000 + i))
			l.Create(SynItem{ID: id, Title: fmt.Sprintf("finished %d", i)})
			l.State(id, "done")
		}
		big := f.SA.WithLog(append(append([]byte{}, f.SA.Log()...), l.Bytes()...))
		pres = append(pres, big)
		preNames = append(preNames, "S_A+45-finished-tasks")
	}
	{
		// stores with no events yet: a fresh init (empty log) and a bare .ergo without a log file
		pres = append(pres, core.Store{"D:.ergo": nil, ".ergo/lock": {}, ".ergo/plans.jsonl": {}, "out.txt": []byte("result\n")})
		preNames = append(preNames, "fresh-init")
		pres = append(pres, core.Store{"D:.ergo": nil, ".ergo/lock": {}, "out.txt": []byte("result\n")})
		preNames = append(preNames, "no-log-file-yet")
	}
	onlyFor := map[int]map[string]bool{} // pre-state index -> the commands run there (nil = all)
	{
		// far more finished tasks than any batching threshold one might think of: prune and compact only
		l := newSynLog()
		ep := core.IDFor(310000)
		l.Create(SynItem{ID: ep, Epic: true, Title: "epic of finished work"})
		for i := 0; i < 250; i++ {
			id := core.IDFor(int64(310001 + i))
			l.Create(SynItem{ID: id, Title: fmt.Sprintf("finished %d", i), In: ep})
			l.State(id, []string{"done", "canceled"}[i%2])
		}
		pres = append(pres, f.SA.WithLog(append(append([]byte{}, f.SA.Log()...), l.Bytes()...)))
		preNames = append(preNames, "S_A+epic-with-250-finished-tasks")
		onlyFor[len(pres)-1] = map[string]bool{"prune": true, "compact": true}
	}
	cmds := c04Commands(f)
	{
		// a plan whose events take several buffered writes (> 4 KiB)
		var sb strings.Builder
		sb.WriteString(`{"title":"big plan","tasks":[`)
		for i := 0; i < 40; i++ {
			if i > 0 {
				fmt.Fprintf(&sb, `,{"title":"step %02d","after":["step %02d"]}`, i, i-1)
			} else {
				sb.WriteString(`{"title":"step 00"}`)
			}
		}
		sb.WriteString(`]}`)
		cmds = append(cmds, crashCmd{"plan-40-chain", core.R("", "--json", "plan").In(sb.String())})
	}
	type job struct {
		pre int
		cmd crashCmd
	}
	var jobs []job
	for pi := range pres {
		for _, c := range cmds {
			if only := onlyFor[pi]; only != nil && !only[c.Name] {
				continue
			}
			jobs = append(jobs, job{pi, c})
		}
	}
	var crashStates, tracedCalls, notLanded, commandsRun int64
	classes := newCounter()
	samples := &sampleSet{max: 8}
	env.Parallel(len(jobs), func(w *core.Worker, i int) {
		if !env.TimeLeft() {
			return
		}
		j := jobs[i]
		pre := pres[j.pre]
		root, scratch := crashWorkdir(w)
		pre.Materialize(root)
		before := core.ObserveW(w, root)
		ref, err := crash.Run(env.Prod, root, j.cmd.Req, "", scratch)
		if err != nil {
			env.HarnessError("strace pass 0: %v", err)
		}
		atomic.AddInt64(&commandsRun, 1)
		if ref.Exit != 0 {
			classes.inc(j.cmd.Name + " rejected-in-this-pre-state")
			return // the command is not applicable in this pre-state (e.g. transition not allowed)
		}
		after := core.ObserveW(w, root)
		normB, normA := before.Norm(before.TitleMap()), after.Norm(after.TitleMap())
		mut := ref.Mutating()
		atomic.AddInt64(&tracedCalls, int64(len(ref.Calls)))
		for n, target := range mut {
			st, ok := killAtRetry(env, root, scratch, pre, j.cmd.Req, ref, target)
			if !ok {
				atomic.AddInt64(&notLanded, 1)
				continue
			}
			atomic.AddInt64(&crashStates, 1)
			st.Materialize(root)
			obs := core.ObserveW(w, root)
			norm := obs.Norm(obs.TitleMap())
			verdict := "other"
			switch {
			case obs.Fail != "":
				verdict = "unreadable"
			case norm == normB:
				verdict = "before"
			case norm == normA:
				verdict = "after"
			}
			classes.inc(fmt.Sprintf("%s kill@%d/%d -> %s", j.cmd.Name, n+1, len(mut), verdict))
			if n == 1 {
				samples.add(map[string]interface{}{"pre": preNames[j.pre], "cmd": j.cmd.Req.Shell(), "killed_on_entry_to": ref.Calls[target].String(), "state_seen": verdict})
			}
			if verdict == "before" || verdict == "after" {
				// what the crash left must also stay put when the next process merely takes the store lock and looks
				// (a dry-run prune): no leftover of the killed command may be "completed" into the log by it
				w.Run(core.R(root, "--json", "prune"))
				o3 := core.ObserveW(w, root)
				if n3 := o3.Norm(o3.TitleMap()); o3.Fail == "" && n3 == norm {
					continue
				} else {
					verdict = "changed-by-a-later-dry-run"
					obs, norm = o3, n3
				}
			}
			sig := fmt.Sprintf("C04 kind=half-applied %s", familyOf(j.cmd.Req))
			if verdict == "changed-by-a-later-dry-run" {
				sig = fmt.Sprintf("C04 kind=leftover-of-the-killed-command-applied-by-a-later-command %s", familyOf(j.cmd.Req))
			}
			if verdict == "unreadable" {
				sig = fmt.Sprintf("C04 kind=unreadable-after-kill %s", familyOf(j.cmd.Req))
			}
			if env.ViolationSeen(sig) {
				continue
			}
			// confirm 5x: same kill point, same verdict
			okAll := true
			for k := 0; k < 5 && okAll; k++ {
				st2, ok := killAtRetry(env, root, scratch, pre, j.cmd.Req, ref, target)
				if !ok {
					okAll = false
					break
				}
				st2.Materialize(root)
				if verdict == "changed-by-a-later-dry-run" {
					w.Run(core.R(root, "--json", "prune"))
				}
				o2 := core.ObserveW(w, root)
				n2 := o2.Norm(o2.TitleMap())
				if (o2.Fail == "") != (obs.Fail == "") || n2 == normB || n2 == normA {
					okAll = false
				}
			}
			if !okAll {
				unconfirmed.Add(1)
				env.Logf("UNCONFIRMED crash candidate %s at %s", sig, ref.Calls[target])
				continue
			}
			detail := fmt.Sprintf("pre=%s: `%s` killed on entry to its mutating call %d of %d (%s): the store is neither as before nor as after the command.\n--- observed\n%s--- before\n%s--- after\n%s",
				preNames[j.pre], j.cmd.Req.Shell(), n+1, len(mut), ref.Calls[target], diffLines(norm, normB, normA), "", "")
			art := crashReplay{Kind: "crash", Check: "C04", Store: pre, Req: j.cmd.Req, Target: target, Call: ref.Calls[target].String(),
				Shell: j.cmd.Req.Shell(), Note: "kill on entry to the given traced call (strace inject=...:signal=SIGKILL)"}
			if verdict == "changed-by-a-later-dry-run" {
				art.Follow = []core.Req{core.R("", "--json", "prune")}
				art.Note += "; then `ergo --json prune` (dry run)"
			}
			env.Violation(sig, detail, art)
		}
	})
	env.Finish("model_checking", map[string]interface{}{
		"states": crashStates, "transitions": crashStates + commandsRun, "traces_validated_against_impl": crashStates,
		"samples": samples.list, "exhaustive": env.TimeLeft() && notLanded == 0, "commands": len(cmds), "pre_states": len(pres),
		"command_instances_run": commandsRun, "store_syscalls_traced": tracedCalls, "crash_states_produced": crashStates, "kill_points_not_landed": notLanded,
		"outcome_classes": classes.snapshot(), "distinct_outcome_classes": classes.len(), "unconfirmed_candidates": unconfirmed.Load(),
		"explanation": "every multi-event command instance (claim x3, all 26 multi-field subsets of set{title,body,epic,claim,state} + flag/--agent variants, prune, plan x2, compact, 6 composite commands, 2 single-event controls) x 3 pre-states; the production binary is killed with SIGKILL on entry to EVERY store-mutating system call it makes (open-with-create/trunc, write, rename, unlink, mkdir, truncate), located by a reference strace run and verified from the injected run's own trace; oracle: normalised observable state after the kill is exactly the state before or exactly the state after an uninterrupted run. states = crash states produced by the real binary.",
	}, []string{
		"kills between two non-mutating system calls leave the same files as the kill before the next mutating call, so mutating-call boundaries cover all points between system calls",
		"process death only (page cache survives SIGKILL): no power-loss / fsync reordering model",
		"strace counts injection per thread; every injected run is verified against the reference call sequence and retried (kill_points_not_landed counts give-ups)",
	})
}

// diffLines shows the observed lines that are in neither reference state.
func diffLines(obs, a, b string) string {
	in := func(s string) map[string]bool {
		m := map[string]bool{}
		for _, l := range strings.Split(s, "\n") {
			m[l] = true
		}
		return m
	}
	ma, mb := in(a), in(b)
	var out []string
	for _, l := range strings.Split(obs, "\n") {
		if l != "" && (!ma[l] || !mb[l]) {
			tag := "neither"
			if ma[l] {
				tag = "as-before"
			} else if mb[l] {
				tag = "as-after"
			}
			out = append(out, "  ["+tag+"] "+clipS(l, 260))
		}
	}
	sort.Strings(out)
	if len(out) > 12 {
		out = out[:12]
	}
	return strings.Join(out, "\n") + "\n"
}

func replayCrash(env *core.Env, raw json.RawMessage) bool {
	var r crashReplay
	if err := json.Unmarshal(raw, &r); err != nil {
		env.HarnessError("bad crash replay: %v", err)
	}
	w := env.W0()
	root, scratch := crashWorkdir(w)
	pre := core.Store(r.Store)
	pre.Materialize(root)
	before := core.ObserveW(w, root)
	ref, err := crash.Run(env.Prod, root, r.Req, "", scratch)
	if err != nil || ref.Exit != 0 {
		fmt.Println("replay: the command no longer runs to completion:", err)
		return false
	}
	after := core.ObserveW(w, root)
	if r.Target >= len(ref.Calls) {
		fmt.Println("replay: the traced call sequence changed")
		return false
	}
	st, ok := killAtRetry(env, root, scratch, pre, r.Req, ref, r.Target)
	if !ok {
		fmt.Println("replay: could not land the kill")
		return false
	}
	if r.TornBy > 0 {
		log := st.Log()
		if r.TornBy < len(log) {
			st = st.WithLog(log[:len(log)-r.TornBy])
		}
	}
	st.Materialize(root)
	for _, fu := range r.Follow {
		fu.Cwd = root
		res := w.Spawn(fu)
		fmt.Printf("  follow-up %s -> %s\n", fu.Shell(), res)
	}
	obs := core.ObserveW(w, root)
	fmt.Printf("  %s killed on entry to %s\n  log after the kill:\n%s\n", r.Shell, ref.Calls[r.Target], st.Log())
	if obs.Fail != "" {
		fmt.Println("  reads fail:", obs.Fail)
		return true
	}
	n := obs.Norm(obs.TitleMap())
	return n != before.Norm(before.TitleMap()) && n != after.Norm(after.TitleMap())
}
