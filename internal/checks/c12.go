package checks

import (
	"bytes"
	"encoding/json"
	"fmt"
	"os"
	"path/filepath"
	"strings"
	"sync/atomic"
	"time"

	"verif/internal/core"
)

func init() { Registry["C12"] = runC12 }

type c12Log struct {
	Kind  string // mutation family
	Desc  string
	Store core.Store
}

// firstBadLine: 1-based number of the first line that is not a JSON event object (what ergo must name).
// Returns 0 if every line parses; the final unterminated line does not count.
func firstBadLine(log []byte) int {
	lines := bytes.Split(log, []byte("\n"))
	endsNL := len(log) > 0 && log[len(log)-1] == '\n'
	if endsNL {
		lines = lines[:len(lines)-1]
	}
	for i, ln := range lines {
		t := bytes.TrimSpace(ln)
		if len(t) == 0 {
			continue
		}
		var ev struct {
			Type string          `json:"type"`
			TS   string          `json:"ts"`
			Data json.RawMessage `json:"data"`
		}
		if err := json.Unmarshal(t, &ev); err != nil {
			if i == len(lines)-1 && !endsNL {
				return 0
			}
			return i + 1
		}
	}
	return 0
}

func c12Mutations(name string, base core.Store, thorough bool) []c12Log {
	var out []c12Log
	log := base.Log()
	add := func(kind, desc string, b []byte) {
		out = append(out, c12Log{Kind: kind, Desc: name + ": " + desc, Store: base.WithLog(b)})
	}
	add("identity", "unchanged", log)
	lines := bytes.SplitAfter(log, []byte("\n"))
	if len(lines) > 0 && len(lines[len(lines)-1]) == 0 {
		lines = lines[:len(lines)-1]
	}
	join := func(ls [][]byte) []byte { return bytes.Join(ls, nil) }
	// truncation at every offset (quick: every offset of the last two lines + every 7th elsewhere)
	lastTwo := len(log)
	if len(lines) >= 2 {
		lastTwo = len(log) - len(lines[len(lines)-1]) - len(lines[len(lines)-2])
	}
	for off := 0; off < len(log); off++ {
		if thorough || off >= lastTwo || off%7 == 0 {
			add("truncate", fmt.Sprintf("truncated to %d bytes", off), log[:off])
		}
	}
	// line delete / duplicate / adjacent swap
	for i := range lines {
		del := append(append([][]byte{}, lines[:i]...), lines[i+1:]...)
		add("line-delete", fmt.Sprintf("line %d deleted", i+1), join(del))
		dup := append(append(append([][]byte{}, lines[:i+1]...), lines[i]), lines[i+1:]...)
		add("line-duplicate", fmt.Sprintf("line %d duplicated", i+1), join(dup))
		if i+1 < len(lines) {
			sw := append([][]byte{}, lines...)
			sw[i], sw[i+1] = sw[i+1], sw[i]
			add("line-swap", fmt.Sprintf("lines %d,%d swapped", i+1, i+2), join(sw))
		}
		// conflict markers around this line
		cm := append(append([][]byte{}, lines[:i]...), []byte("<<<<<<< HEAD\n"), lines[i], []byte("=======\n"), lines[i], []byte(">>>>>>> other\n"))
		cm = append(cm, lines[i+1:]...)
		add("conflict-markers", fmt.Sprintf("git conflict markers around line %d", i+1), join(cm))
		// unknown event type / blank line / CRLF at this position
		unk := append(append(append([][]byte{}, lines[:i]...), []byte(`{"type":"future_event","ts":"2026-01-01T00:00:00Z","data":{"id":"X","anything":[1,2,3]}}`+"\n")), lines[i:]...)
		add("unknown-type", fmt.Sprintf("unknown event type before line %d", i+1), join(unk))
		bare := append(append(append([][]byte{}, lines[:i]...), []byte(`{"type":"note","ts":"2026-01-01T00:00:00Z"}`+"\n")), lines[i:]...)
		add("unknown-type", fmt.Sprintf("unknown event type without a data member before line %d", i+1), join(bare))
		bl := append(append(append([][]byte{}, lines[:i]...), []byte("\n  \n")), lines[i:]...)
		add("blank-lines", fmt.Sprintf("blank lines before line %d", i+1), join(bl))
	}
	// two marks of a hand edit at once: blank lines somewhere, an unparsable line later (the named line number must
	// count the blank ones), and an unparsable but newline-terminated line followed only by trailing white space
	for i := range lines {
		for j := i; j < len(lines); j++ {
			if !thorough && (j-i)%2 == 1 {
				continue
			}
			ls := append(append(append([][]byte{}, lines[:i]...), []byte("\n\n")), lines[i:j]...)
			ls = append(append(ls, []byte("this line is not JSON\n")), lines[j:]...)
			add("blank+garbage", fmt.Sprintf("two blank lines before line %d, a non-JSON line before line %d", i+1, j+1), join(ls))
		}
	}
	add("blank+garbage", "a non-JSON line at the end followed by spaces without a newline", append(append([]byte{}, log...), []byte("this line is not JSON\n   ")...))
	add("blank+garbage", "a non-JSON line at the end followed by a blank line and a tab", append(append([]byte{}, log...), []byte("{broken\n\n\t")...))
	// all permutations of the first <= 6 lines (hand-merged histories)
	n := len(lines)
	if n > 6 {
		n = 6
	}
	if !thorough && n > 5 {
		n = 5
	}
	for _, p := range permutations(n) {
		var ls [][]byte
		for _, k := range p {
			ls = append(ls, lines[k])
		}
		ls = append(ls, lines[n:]...)
		add("permutation", fmt.Sprintf("first %d lines in order %v", n, p), join(ls))
	}
	// bit flips
	for i := 0; i < len(log); i++ {
		bits := []uint{uint(i % 8)}
		if thorough {
			bits = []uint{0, 1, 2, 3, 4, 5, 6, 7}
		}
		for _, b := range bits {
			m := append([]byte{}, log...)
			m[i] ^= 1 << b
			add("bit-flip", fmt.Sprintf("bit %d of byte %d flipped", b, i), m)
		}
	}
	// every field of every event replaced by values of the wrong type / shape
	repl := []string{`null`, `0`, `true`, `[]`, `{}`, `""`, `"2026-13-45T99:99:99Z"`, `"not a time"`,
		`"` + strings.Repeat("LONGID", 20) + `"`, `"` + strings.Repeat("日本", 60) + `"`} // far longer than any id, title column or terminal width
	for i, ln := range lines {
		var ev map[string]json.RawMessage
		if json.Unmarshal(ln, &ev) != nil {
			continue
		}
		var data map[string]json.RawMessage
		json.Unmarshal(ev["data"], &data)
		set := func(desc string, f func(ev, data map[string]json.RawMessage)) {
			e2 := map[string]json.RawMessage{}
			for k, v := range ev {
				e2[k] = v
			}
			d2 := map[string]json.RawMessage{}
			for k, v := range data {
				d2[k] = v
			}
			f(e2, d2)
			if _, touched := e2["data"]; touched && d2 != nil {
				if _, keep := e2["\x00rawdata"]; !keep {
					db, _ := json.Marshal(d2)
					e2["data"] = db
				}
			}
			delete(e2, "\x00rawdata")
			b, _ := json.Marshal(e2)
			ls := append([][]byte{}, lines...)
			ls[i] = append(b, '\n')
			add("field-replace", fmt.Sprintf("line %d: %s", i+1, desc), join(ls))
		}
		for _, r := range repl {
			r := r
			for _, top := range []string{"type", "ts", "data"} {
				top := top
				set(fmt.Sprintf("%s=%s", top, r), func(ev, data map[string]json.RawMessage) {
					ev[top] = json.RawMessage(r)
					if top == "data" {
						ev["\x00rawdata"] = nil
					}
				})
			}
			for k := range data {
				k := k
				set(fmt.Sprintf("data.%s=%s", k, r), func(ev, data map[string]json.RawMessage) { data[k] = json.RawMessage(r) })
			}
		}
		for k := range data {
			k := k
			set(fmt.Sprintf("data.%s removed", k), func(ev, data map[string]json.RawMessage) { delete(data, k) })
		}
		// no timestamp anywhere in the line (envelope and payload): there is nothing a reader could fall back to
		set("every timestamp field removed", func(ev, data map[string]json.RawMessage) {
			delete(ev, "ts")
			for _, k := range []string{"ts", "created_at"} {
				delete(data, k)
			}
		})
		set("every timestamp field empty", func(ev, data map[string]json.RawMessage) {
			ev["ts"] = json.RawMessage(`""`)
			for _, k := range []string{"ts", "created_at"} {
				if _, ok := data[k]; ok {
					data[k] = json.RawMessage(`""`)
				}
			}
		})
	}
	// whole-file shapes
	add("shape", "empty file", nil)
	add("shape", "CRLF line endings", bytes.ReplaceAll(log, []byte("\n"), []byte("\r\n")))
	add("shape", "UTF-8 BOM first", append([]byte("\xef\xbb\xbf"), log...))
	add("shape", "NUL bytes appended", append(append([]byte{}, log...), 0, 0, 0, '\n'))
	add("shape", "only newlines", []byte("\n\n\n"))
	add("shape", "binary garbage", bytes.Repeat([]byte{0xff, 0xfe, 0x00, 0x80}, 64))
	add("shape", "no trailing newline", bytes.TrimRight(log, "\n"))
	for _, sz := range []int{10*1024*1024 - 1, 10*1024*1024 + 1} {
		big := fmt.Sprintf(`{"type":"body","ts":"2026-01-01T00:00:00Z","data":{"id":"X","body":"%s","ts":"2026-01-01T00:00:00Z"}}`, "")
		pad := sz - len(big)
		if pad > 0 {
			big = fmt.Sprintf(`{"type":"body","ts":"2026-01-01T00:00:00Z","data":{"id":"X","body":"%s","ts":"2026-01-01T00:00:00Z"}}`, strings.Repeat("x", pad))
		}
		add("huge-line", fmt.Sprintf("one line of %d bytes appended", len(big)), append(append([]byte{}, log...), []byte(big+"\n")...))
	}
	return out
}

func runC12(env *core.Env) {
	w0 := env.W0()
	var seeds []struct {
		name string
		st   core.Store
		id   string
	}
	{ // CLI-produced logs
		fx := NewFix(env, w0)
		e := fx.NewEpic("E")
		a := fx.NewTask(map[string]interface{}{"title": "A", "epic": e})
		b := fx.NewTask(map[string]interface{}{"title": "B", "body": "line1\nline2"})
		fx.Must(core.R("", "sequence", a, b))
		fx.Must(claimReq("ag"))
		fx.Set(a, map[string]interface{}{"state": "done"})
		seeds = append(seeds, struct {
			name string
			st   core.Store
			id   string
		}{"cli-1", fx.Store(), b})
		fx.Must(core.R("", "--json", "prune", "--yes"))
		fx.Set(b, map[string]interface{}{"title": "B2", "claim": "x"})
		st := fx.Store()
		st["out.txt"] = []byte("r\n")
		fx = FixFrom(env, w0, st, fx.N)
		fx.Set(b, map[string]interface{}{"result_path": "out.txt", "result_summary": "res"})
		seeds = append(seeds, struct {
			name string
			st   core.Store
			id   string
		}{"cli-2-pruned+result", fx.Store(), b})
	}
	{ // a small CLI-produced log whose lines are long and mostly multi-byte (titles and bodies in CJK and emoji): the
		// truncations, bit flips and field replacements below then produce unparsable lines of > 160 bytes but < 160 runes
		fx := NewFix(env, w0)
		a := fx.NewTask(map[string]interface{}{"title": strings.Repeat("日本語の題名", 8), "body": strings.Repeat("本文です。\U0001F600", 12)})
		fx.Set(a, map[string]interface{}{"title": strings.Repeat("改題後の題名", 9)})
		fx.Must(core.R("", "--json", "claim", a, "--agent", strings.Repeat("担当者", 10)))
		seeds = append(seeds, struct {
			name string
			st   core.Store
			id   string
		}{"cli-3-wide-text", fx.Store(), a})
	}
	{ // a hand-merged log: four epics and two tasks created at the same instant (equal sort keys)
		l := newSynLog()
		ts := l.tick()
		var first string
		for i := 0; i < 4; i++ {
			id := core.IDFor(int64(500 + i))
			if i == 0 {
				first = id
			}
			l.ev("new_epic", ts, map[string]interface{}{"id": id, "uuid": "u" + id, "epic_id": "", "state": "todo", "title": fmt.Sprintf("epic %d", i), "body": "", "created_at": ts})
		}
		for i := 0; i < 3; i++ {
			id := core.IDFor(int64(600 + i))
			l.ev("new_task", ts, map[string]interface{}{"id": id, "uuid": "u" + id, "epic_id": first, "state": "todo", "title": fmt.Sprintf("task %d", i), "body": "", "created_at": ts})
		}
		seeds = append(seeds, struct {
			name string
			st   core.Store
			id   string
		}{"hand-merged-equal-timestamps", core.Store{".ergo/plans.jsonl": l.Bytes(), ".ergo/lock": {}}, first})
	}
	{ // a hand-merged log in which six epics and three tasks were created at the same instant, each line spelling that
		// instant differently (Z, +00:00, a shifted offset, with and without a zero fraction)
		l := newSynLog()
		spell := []string{"2026-05-05T12:00:00Z", "2026-05-05T12:00:00+00:00", "2026-05-05T13:00:00+01:00", "2026-05-05T07:00:00-05:00", "2026-05-05T12:00:00.000Z", "2026-05-05T17:30:00.0+05:30"}
		var first string
		for i, ts := range spell {
			id := core.IDFor(int64(800 + i))
			if i == 0 {
				first = id
			}
			l.ev("new_epic", ts, map[string]interface{}{"id": id, "uuid": "u" + id, "epic_id": "", "state": "todo", "title": fmt.Sprintf("epic %d", i), "body": "", "created_at": ts})
		}
		for i := 0; i < 3; i++ {
			id := core.IDFor(int64(810 + i))
			ts := spell[(i*2+1)%len(spell)]
			l.ev("new_task", ts, map[string]interface{}{"id": id, "uuid": "u" + id, "epic_id": first, "state": "todo", "title": fmt.Sprintf("task %d", i), "body": "", "created_at": ts})
		}
		seeds = append(seeds, struct {
			name string
			st   core.Store
			id   string
		}{"hand-merged-one-instant-spelled-six-ways", core.Store{".ergo/plans.jsonl": l.Bytes(), ".ergo/lock": {}}, first})
	}
	{ // a hand-merged log with dependency cycles (each clone added one direction): six tasks of one epic in a ring, two
		// downstream of it, two unfiled tasks depending on each other, two epics depending on each other
		l := newSynLog()
		ep, ep2 := core.IDFor(700), core.IDFor(701)
		l.Create(SynItem{ID: ep, Epic: true, Title: "ring epic"})
		l.Create(SynItem{ID: ep2, Epic: true, Title: "other epic"})
		var ring []string
		for i := 0; i < 8; i++ {
			id := core.IDFor(int64(710 + i))
			ring = append(ring, id)
			l.Create(SynItem{ID: id, Title: fmt.Sprintf("ring %d", i), In: ep})
		}
		for i := 0; i < 6; i++ {
			l.Link(ring[i], ring[(i+1)%6])
		}
		l.Link(ring[6], ring[0])
		l.Link(ring[7], ring[6])
		u1, u2 := core.IDFor(720), core.IDFor(721)
		l.Create(SynItem{ID: u1, Title: "unfiled 1"})
		l.Create(SynItem{ID: u2, Title: "unfiled 2"})
		l.Link(u1, u2)
		l.Link(u2, u1)
		l.Link(ep, ep2)
		l.Link(ep2, ep)
		seeds = append(seeds, struct {
			name string
			st   core.Store
			id   string
		}{"hand-merged-cycles", core.Store{".ergo/plans.jsonl": l.Bytes(), ".ergo/lock": {}}, ep})
	}
	{ // tasks that wait for exactly two open tasks each (the text list names both blockers on the row; three or more are
		// only counted): unfiled, inside an epic, and with blockers in another epic
		l := newSynLog()
		ep := core.IDFor(730)
		l.Create(SynItem{ID: ep, Epic: true, Title: "epic with waiters"})
		var bl []string
		for i, t := range []string{"alpha", "bravo", "charlie", "delta", "echo", "foxtrot"} {
			id := core.IDFor(int64(731 + i))
			bl = append(bl, id)
			in := ""
			if i >= 4 {
				in = ep
			}
			l.Create(SynItem{ID: id, Title: t, In: in})
		}
		for i := 0; i < 4; i++ {
			id := core.IDFor(int64(740 + i))
			in := ""
			if i >= 2 {
				in = ep
			}
			l.Create(SynItem{ID: id, Title: fmt.Sprintf("waiter %d", i), In: in})
			l.Link(id, bl[(i*2)%6])
			l.Link(id, bl[(i*2+3)%6])
		}
		seeds = append(seeds, struct {
			name string
			st   core.Store
			id   string
		}{"hand-merged-two-blockers", core.Store{".ergo/plans.jsonl": l.Bytes(), ".ergo/lock": {}}, ep})
	}
	if sample, err := core.Snapshot(filepath.Join(env.Repo, "testdata/sample-project")); err == nil && len(sample.Log()) > 0 && env.Thorough() {
		seeds = append(seeds, struct {
			name string
			st   core.Store
			id   string
		}{"legacy-sample-project", sample, "XSFBG3"})
	}
	type job struct {
		m  c12Log
		id string
		eq bool // equal sort keys in this seed: more repetitions
	}
	var jobs []job
	for _, s := range seeds {
		ms := c12Mutations(s.name, s.st, env.Thorough())
		if strings.Contains(s.name, "hand-merged") && !env.Thorough() {
			// equal-timestamp seed: determinism is the point; keep identity, permutations and line operations
			var keep []c12Log
			for _, m := range ms {
				if m.Kind == "identity" || m.Kind == "permutation" || m.Kind == "line-swap" || m.Kind == "line-delete" {
					keep = append(keep, m)
				}
			}
			ms = keep
		}
		for _, m := range ms {
			jobs = append(jobs, job{m, s.id, strings.Contains(s.name, "hand-merged")})
		}
	}
	env.Logf("%d log contents", len(jobs))
	reads := func(id string) []core.Req {
		return []core.Req{
			core.R("", "--json", "list", "--all"), core.R("", "--json", "list", "--epics"), core.R("", "--json", "list", "--ready"), core.R("", "--json", "list"),
			core.R("", "list", "--all").In(""), core.R("", "list", "--epics").In(""), core.R("", "list").In(""),
			core.R("", "--json", "show", id), core.R("", "show", id).In(""), core.R("", "--json", "prune"), core.R("", "--json", "where"),
			// quiet mode silences hints, not errors
			core.R("", "-q", "list").In(""), core.R("", "--json", "list", "--all", "-q"), core.R("", "-q", "show", id).In(""), core.R("", "--quiet", "--json", "prune"),
		}
	}
	muts := func(id string) []core.Req {
		return []core.Req{
			core.R("", "--json", "new", "task").In(`{"title":"n"}`), core.R("", "--json", "claim", "--agent", "z"), core.R("", "--json", "set", id).In(`{"title":"t2"}`),
			core.R("", "--json", "prune", "--yes"), core.R("", "--json", "plan").In(`{"title":"P","tasks":[{"title":"a"}]}`), core.R("", "--json", "compact"),
		}
	}
	var evals, commands, failing, nondet, spawnedMsgs int64
	classes := newCounter()
	samples := &sampleSet{max: 10}
	conf := newConformer(len(jobs)*3/280+1, 300)
	env.Parallel(len(jobs), func(w *core.Worker, i int) {
		if !env.TimeLeft() {
			return
		}
		j := jobs[i]
		st := j.m.Store
		logName := st.LogName()
		bad := func(kind, detail string, steps []core.Req, as ...Assert) {
			report(env, "C12 kind="+kind, j.m.Desc+": "+detail, mkTrace(st, j.m.Desc, steps, as...))
		}
		atomic.AddInt64(&evals, 1)
		badLine := firstBadLine(st.Log())
		st.Materialize(w.Proj)
		reps := 3
		if j.eq {
			reps = 8
		}
		for _, r := range reads(j.id) {
			req := r
			req.Cwd = w.Proj
			var first core.Res
			for k := 0; k < reps; k++ {
				res := w.Run(req)
				atomic.AddInt64(&commands, 1)
				if k == 0 {
					first = res
					if i%13 == 0 {
						conf.offer(w.Proj, st, req, res)
					}
					if res.Panic || res.Timeout || (res.Exit != 0 && res.Exit != 1) {
						bad("crash-or-hang cmd="+opClass(req), req.Shell()+" -> "+res.String(), []core.Req{r}, Assert{Kind: "exit_nonzero", Step: 1})
						break
					}
					if res.Exit != 0 {
						atomic.AddInt64(&failing, 1)
						e := string(res.Err)
						// the error line is printed by cmd/ergo's exit path, which the in-process server only mirrors: for the
						// quiet variants and one plain read per log the message is taken from a spawned production binary
						if quiet := contains(req.Args, "-q") || contains(req.Args, "--quiet"); quiet || strings.Join(r.Args, " ") == "--json list --all" {
							sreq := req
							sreq.RandBase = -1
							if sres := w.Spawn(sreq); sres.Exit != 0 {
								e = string(sres.Err)
								atomic.AddInt64(&spawnedMsgs, 1)
							}
						}
						if !strings.HasPrefix(e, "error:") || len(strings.TrimSpace(e)) < 8 {
							bad("failure-without-message cmd="+opClass(req), req.Shell()+" -> "+res.String(), []core.Req{r}, Assert{Kind: "exit_nonzero", Step: 1})
						}
						if strings.Contains(e, "invalid JSON in events log") || strings.Contains(e, "git conflict markers") {
							want := fmt.Sprintf("%s:%d:", filepath.Join(w.Proj, logName), badLine)
							if badLine == 0 || !strings.Contains(e, want) {
								bad("parse-error-does-not-name-file-and-line", fmt.Sprintf("first unparsable line is %d; message: %s", badLine, clipS(e, 200)), []core.Req{r}, Assert{Kind: "err_contains", Step: 1, Text: "invalid JSON"})
							}
						}
					}
					continue
				}
				if res.Exit != first.Exit || !bytes.Equal(res.Out, first.Out) || !bytes.Equal(res.Err, first.Err) {
					atomic.AddInt64(&nondet, 1)
					bad("same-log-different-output cmd="+strings.Join(r.Args, "_"), fmt.Sprintf("%s printed two different outputs for the same file:\n%s\n---\n%s", req.Shell(), clipS(string(first.Out), 400), clipS(string(res.Out), 400)), []core.Req{r})
					break
				}
			}
			classes.inc(fmt.Sprintf("%s %s exit=%d", j.m.Kind, opClass(req), first.Exit))
		}
		// purity: after all read commands the store is byte-identical (a missing lock file may have been created)
		after, _ := core.Snapshot(w.Proj)
		if d := c10Diff(st, after); d != "" && d != "created:.ergo/lock" {
			bad("read-command-wrote changed="+d, "after list/show/prune(dry)/where the store differs: "+d, reads(j.id), Assert{Kind: "log_differs", Step: len(reads(j.id)), Other: 0})
		}
		// mutations: terminate, 0/1, message; on success everything recorded earlier is still there, in order (compact excepted)
		if j.m.Kind == "bit-flip" && i%3 != 0 && !env.Thorough() {
			return
		}
		oldEvents, _ := core.ParseLog(cleanOf(st).Log())
		for _, r := range muts(j.id) {
			st.Materialize(w.Proj)
			req := r
			req.Cwd = w.Proj
			req.RandBase = 7000
			res := w.Run(req)
			atomic.AddInt64(&commands, 1)
			if res.Panic || res.Timeout || (res.Exit != 0 && res.Exit != 1) {
				bad("crash-or-hang cmd="+opClass(req), req.Shell()+" -> "+res.String(), []core.Req{r}, Assert{Kind: "exit_nonzero", Step: 1})
				continue
			}
			if res.Exit != 0 {
				if !strings.HasPrefix(string(res.Err), "error:") {
					bad("failure-without-message cmd="+opClass(req), res.String(), []core.Req{r}, Assert{Kind: "exit_nonzero", Step: 1})
				}
				continue
			}
			if opClass(req) == "compact" {
				continue
			}
			post, _ := core.Snapshot(w.Proj)
			newEvents, _ := core.ParseLog(post.Log())
			if !hasPrefixEvents(newEvents, oldEvents) {
				bad("history-rewritten cmd="+opClass(req), fmt.Sprintf("after a successful `%s` the earlier events are no longer all present, in order and unchanged (%d -> %d events)", req.Shell(), len(oldEvents), len(newEvents)),
					[]core.Req{r}, Assert{Kind: "exit_zero", Step: 1})
			}
		}
		if i%5000 == 0 {
			samples.add(map[string]interface{}{"log": j.m.Desc})
		}
	})
	layeredCov := c12Layered(env)
	validated := conf.run(env)
	env.Finish("model_checking", map[string]interface{}{
		"layered_store": layeredCov,
		"states":        evals, "transitions": commands, "traces_validated_against_impl": validated, "samples": samples.list,
		"evaluations": evals, "distinct_nontrivial": classes.len(), "exhaustive": env.TimeLeft(),
		"rule": "log contents = seeds (CLI-produced logs, a hand-merged log with equal timestamps, a hand-merged log with dependency cycles among siblings, unfiled tasks and epics, thorough: the legacy sample) x {every truncation offset (quick: last two lines fully, every 7th elsewhere), every line delete/duplicate/adjacent swap, conflict markers / unknown event type / blank lines at every position, all permutations of the first 5 (6) lines, one (8) bit flips per byte, every field of every event replaced by null/0/true/[]/{}/\"\"/bad timestamps/a 120-byte and a 120-column string or removed, all timestamps of a line removed or emptied, empty/CRLF/BOM/NUL/garbage/no-trailing-newline, a 10 MiB-1 and a 10 MiB+1 line}; each x 15 read commands (4 of them with -q / --quiet) (3x, 8x on equal sort keys) and 6 mutating commands; distinct = (mutation family, command, exit)",
		"error_messages_checked_on_spawned_binary": spawnedMsgs,
		"commands_run": commands, "commands_exiting_1": failing, "nondeterministic_outputs": nondet, "seeds": len(seeds),
		"unconfirmed_candidates": unconfirmed.Load(),
	}, []string{
		"Go's map-iteration seed cannot be enumerated: output determinism is decided by repetition (a difference is always real; absence after k runs is evidence, not enumeration)",
		"'terminates promptly' = the in-process server answers within its 60 s watchdog",
	})
}

// c12Layered: "terminates promptly" on a valid store whose dependency graph has very many paths but few nodes: 22 stages
// of 3 tasks, every task depending on all tasks of the stage before (66 tasks, 189 edges, 3^21 paths). Every command of
// the list must answer within the server's watchdog; walking nodes takes milliseconds, walking paths never ends.
func c12Layered(env *core.Env) map[string]interface{} {
	l := newSynLog()
	const stages, width = 22, 3
	var ids [stages][width]string
	for s := 0; s < stages; s++ {
		for k := 0; k < width; k++ {
			ids[s][k] = core.IDFor(int64(20000 + s*width + k))
			l.Create(SynItem{ID: ids[s][k], Title: fmt.Sprintf("stage %d / %d", s, k)})
		}
	}
	for s := 1; s < stages; s++ {
		for k := 0; k < width; k++ {
			for j := 0; j < width; j++ {
				l.Link(ids[s][k], ids[s-1][j])
			}
		}
	}
	fresh := core.IDFor(29999)
	l.Create(SynItem{ID: fresh, Title: "fresh"})
	st := core.Store{".ergo/plans.jsonl": l.Bytes(), ".ergo/lock": nil}
	top, bottom := ids[stages-1][0], ids[0][0]
	cmds := []core.Req{
		core.R("", "--json", "list", "--all"), core.R("", "list").In(""), core.R("", "--json", "show", top),
		core.R("", "--json", "sequence", top, fresh),    // fresh depends on the top: acyclic
		core.R("", "--json", "sequence", fresh, bottom), // the bottom depends on fresh: acyclic
		core.R("", "--json", "sequence", top, bottom),   // would close a cycle: must be refused, promptly
		core.R("", "--json", "sequence", "rm", top, ids[stages-2][0]),
		core.R("", "--json", "plan").In(`{"title":"P","tasks":[{"title":"a"},{"title":"b","after":["a"]},{"title":"c","after":["a","b"]}]}`),
		core.R("", "--json", "claim", "--agent", "z"), core.R("", "--json", "set", top).In(`{"state":"done"}`),
		core.R("", "--json", "prune", "--yes"), core.R("", "--json", "compact"),
	}
	var ran int64
	env.Parallel(len(cmds), func(w *core.Worker, i int) {
		st.Materialize(w.Proj)
		req := cmds[i]
		req.Cwd = w.Proj
		req.RandBase = 31000
		t0 := time.Now()
		res := w.Run(req)
		atomic.AddInt64(&ran, 1)
		if res.Timeout || res.Panic || time.Since(t0) > 30*time.Second {
			sig := "C12 kind=does-not-terminate-promptly cmd=" + opClass(req)
			if !env.ViolationSeen(sig) {
				env.Violation(sig, fmt.Sprintf("on a valid store of %d tasks in %d stages (each task depends on all %d tasks of the stage before) `%s` had not answered after %s: %s", stages*width+1, stages, width, cmds[i].Shell(), time.Since(t0).Round(time.Second), res.String()),
					map[string]interface{}{"kind": "layered", "req": cmds[i]})
			}
		}
	})
	return map[string]interface{}{"tasks": stages*width + 1, "stages": stages, "commands": ran,
		"rule": "22 stages x 3 tasks, complete dependencies between consecutive stages; 12 commands (reads, acyclic and cycle-closing sequence, rm, plan, claim, set, prune, compact) must each answer within 30 s"}
}

func init() {
	replayers["layered"] = func(env *core.Env, raw json.RawMessage) bool {
		var a struct {
			Req core.Req `json:"req"`
		}
		json.Unmarshal(raw, &a)
		fmt.Printf("  layered store (22 stages x 3 tasks), `%s` as a spawned process with a 30 s limit\n", a.Req.Shell())
		// rebuild the store exactly as the phase does
		l := newSynLog()
		const stages, width = 22, 3
		var ids [stages][width]string
		for s := 0; s < stages; s++ {
			for k := 0; k < width; k++ {
				ids[s][k] = core.IDFor(int64(20000 + s*width + k))
				l.Create(SynItem{ID: ids[s][k], Title: fmt.Sprintf("stage %d / %d", s, k)})
			}
		}
		for s := 1; s < stages; s++ {
			for k := 0; k < width; k++ {
				for j := 0; j < width; j++ {
					l.Link(ids[s][k], ids[s-1][j])
				}
			}
		}
		l.Create(SynItem{ID: core.IDFor(29999), Title: "fresh"})
		proj := filepath.Join(env.Scratch, "replay", "proj")
		os.MkdirAll(proj, 0o755)
		core.Store{".ergo/plans.jsonl": l.Bytes(), ".ergo/lock": nil}.Materialize(proj)
		r := a.Req
		r.Cwd = proj
		r.RandBase = -1
		done := make(chan core.Res, 1)
		go func() { done <- core.Spawn{Bin: env.Prod}.Run(r) }()
		select {
		case res := <-done:
			fmt.Printf("  answered: %s\n", res)
			return res.Timeout || res.Panic
		case <-time.After(30 * time.Second):
			fmt.Println("  no answer after 30 s")
			return true
		}
	}
}
