package checks

import (
	"encoding/json"
	"fmt"
	"strings"
	"time"

	"verif/internal/core"
	"verif/internal/sched"
)

func init() {
	Registry["C01"] = runC01
	schedJudges["C01"] = func(env *core.Env, sc sched.Scenario) func(*core.Worker, *sched.Exec) (string, string) {
		return serialJudge(env, "C01", sc, true)
	}
}

// concFixtures builds the stores the scheduler scenarios start from.
type concFix struct {
	SA, SDep, SOne, SNone, SBig, SHeld, SLong core.Store
	T1, T2, T3, T4, E1, E2                    string // ids in SA/SDep/SHeld (same construction order => same ids)
	One                                       string
}

func buildConcFix(env *core.Env) *concFix {
	w := env.W0()
	f := &concFix{}
	mk := func(dep, held bool) core.Store {
		fx := NewFix(env, w)
		st := fx.Store()
		st["out.txt"] = []byte("result\n")
		fx = FixFrom(env, w, st, 0)
		f.T1 = fx.NewTask(map[string]interface{}{"title": "T1"})
		f.T2 = fx.NewTask(map[string]interface{}{"title": "T2"})
		f.E1 = fx.NewEpic("E1")
		f.T3 = fx.NewTask(map[string]interface{}{"title": "T3", "epic": f.E1})
		f.T4 = fx.NewTask(map[string]interface{}{"title": "T4"})
		fx.Set(f.T4, map[string]interface{}{"state": "done"})
		f.E2 = fx.NewEpic("E2")
		if dep {
			fx.Must(core.R("", "sequence", f.T1, f.T2))
			fx.Must(core.R("", "sequence", f.E1, f.E2))
		}
		if held {
			fx.Set(f.T1, map[string]interface{}{"state": "doing", "claim": "holder"})
		}
		return fx.Store()
	}
	f.SA = mk(false, false)
	f.SDep = mk(true, true) // T1 doing (held), T2 depends on T1
	f.SHeld = mk(false, true)
	{
		fx := NewFix(env, w)
		f.One = fx.NewTask(map[string]interface{}{"title": "only"})
		f.SOne = fx.Store()
		fx.Set(f.One, map[string]interface{}{"state": "done"})
		f.SNone = fx.Store()
	}
	{
		fx := NewFix(env, w)
		fx.NewTask(map[string]interface{}{"title": "big1", "body": strings.Repeat("x", 70000)})
		fx.NewTask(map[string]interface{}{"title": "big2", "body": strings.Repeat("y", 70000)})
		f.SBig = fx.Store()
	}
	{
		// a long history (12k events on one finished task, ~2.5 MB): replay allocates enough for the garbage collector to run while the lock is held
		l := newSynLog()
		old := core.IDFor(100000)
		l.Create(SynItem{ID: old, Title: "old"})
		for i := 0; i < 12000; i++ {
			ts := l.tick()
			l.ev("body", ts, map[string]interface{}{"id": old, "body": fmt.Sprintf("revision %d %s", i, strings.Repeat("history ", 12)), "ts": ts})
		}
		l.State(old, "done")
		l.Create(SynItem{ID: core.IDFor(99), Title: "the ready one"})
		f.SLong = core.Store{".ergo/plans.jsonl": l.Bytes(), ".ergo/lock": {}}
	}
	return f
}

func claimReq(agent string, extra ...string) core.Req {
	return core.R("", append([]string{"--json", "claim", "--agent", agent}, extra...)...)
}

// serialJudge: Blocked / log integrity / serial equivalence (+ direct claim invariants when claims=true).
func serialJudge(env *core.Env, check string, sc sched.Scenario, claims bool) func(w *core.Worker, ex *sched.Exec) (string, string) {
	oracle := newSerialOracle(env, sc)
	return func(w *core.Worker, ex *sched.Exec) (string, string) {
		if ex.Blocked != "" {
			kind := "stalled"
			if strings.Contains(ex.Blocked, "flock(2)") {
				kind = "blocks-waiting-for-the-lock"
			}
			return check + " kind=" + kind, ex.Blocked
		}
		if msg := logIntact(ex.Final); msg != "" {
			return check + " kind=log-corrupt", msg
		}
		ex.Final.Materialize(w.Proj)
		obs := core.ObserveW(w, w.Proj)
		if obs.Fail != "" {
			return check + " kind=store-unreadable-after-quiescence", obs.Fail
		}
		tm := obs.TitleMap()
		title := func(id string) string {
			if t, ok := tm[id]; ok {
				return t
			}
			return "?" + id
		}
		outs := make([]outcome, len(sc.Procs))
		var desc []string
		for i, res := range ex.Results {
			outs[i] = outcome{OK: res.Exit == 0, Busy: strings.Contains(string(res.Err), "lock busy"), Reply: replyOf(sc.Procs[i], res, title)}
			d := fmt.Sprintf("p%d exit=%d %s", i, res.Exit, outs[i].Reply)
			if res.Exit != 0 {
				d += " (" + clipS(strings.TrimSpace(string(res.Err)), 80) + ")"
			}
			desc = append(desc, d)
			if res.Exit != 0 && res.Exit != 1 {
				return check + " kind=crash", d + " " + res.String()
			}
		}
		if claims {
			// direct invariants: a title is handed out at most once (no scenario here puts the same task back twice),
			// and every winner's task is doing and claimed by exactly that agent
			won := map[string]int{}
			for i, res := range ex.Results {
				if res.Exit != 0 || opClass(sc.Procs[i]) != "claim" || outs[i].Reply == "no_ready" {
					continue
				}
				var m map[string]interface{}
				json.Unmarshal(res.Out, &m)
				id, _ := m["id"].(string)
				agent, _ := m["agent_id"].(string)
				won[id]++
				sh := obs.Shows[id]
				// another command of the scenario may legitimately have moved the task on (put-back writers)
				if sh.State == "doing" && sh.ClaimedBy != agent && !putBackIn(sc) {
					return check + " kind=winner-not-the-claimant", fmt.Sprintf("%s was told it won %s but claimed_by=%q", agent, title(id), sh.ClaimedBy)
				}
			}
			if len(won) == 0 && strings.Contains(sc.Name, "one-ready") {
				allAnswered := true
				for i, res := range ex.Results {
					if opClass(sc.Procs[i]) == "claim" && (res.Exit != 0 || outs[i].Reply != "no_ready") {
						allAnswered = false
					}
				}
				if allAnswered {
					return check + " kind=nothing-handed-out-although-a-task-is-ready", fmt.Sprintf("the store of this scenario has exactly one ready task, every claimer answered no_ready: %v", desc)
				}
			}
			if len(won) > 0 && (strings.Contains(sc.Name, "S_none") || strings.Contains(sc.Name, "nothing-ready")) {
				return check + " kind=task-handed-out-although-nothing-is-ready", fmt.Sprintf("the store of this scenario has no ready task (and no command of the scenario makes one ready), yet: %v", desc)
			}
			if strings.Contains(sc.Name, "two-oldest-of-three") {
				for id := range won {
					if title(id) == "<C youngest>" {
						return check + " kind=younger-task-handed-out-while-an-older-one-is-ready", fmt.Sprintf("three ready tasks, two claimers: the youngest was handed out: %v", desc)
					}
				}
			}
			for id, n := range won {
				if n > 1 && !putBackIn(sc) {
					return check + " kind=task-handed-to-two-claimants", fmt.Sprintf("%s returned to %d invocations: %v", title(id), n, desc)
				}
			}
		}
		site, ok, tried := oracle.explain(w, ex, outs, obs.Norm(tm))
		if !ok {
			return check + " kind=not-serializable scenario=" + sc.Name, fmt.Sprintf("outcomes %v; final state matches no serial order consistent with real time [%s]", desc, clipS(tried, 700))
		}
		if site != "" {
			return check + " kind=serializable-only-at-lock-section-granularity site=" + site, fmt.Sprintf("outcomes %v", desc)
		}
		return "", ""
	}
}

func putBackIn(sc sched.Scenario) bool {
	for _, p := range sc.Procs {
		if p.Stdin != nil && strings.Contains(string(*p.Stdin), `"todo"`) {
			return true
		}
	}
	return false
}

func runC01(env *core.Env) {
	f := buildConcFix(env)
	var scs []sched.Scenario
	add := func(name string, st core.Store, procs ...core.Req) {
		scs = append(scs, sched.Scenario{Name: name, Store: st, Procs: procs})
	}
	add("2-claimers/S_A", f.SA, claimReq("a1"), claimReq("a2"))
	add("2-claimers/S_one", f.SOne, claimReq("a1"), claimReq("a2"))
	add("2-claimers/S_none", f.SNone, claimReq("a1"), claimReq("a2"))
	add("claim+claim--epic/S_A", f.SA, claimReq("a1"), claimReq("a2", "--epic", f.E1))
	add("2-claimers--epic/S_A", f.SA, claimReq("a1", "--epic", f.E1), claimReq("a2", "--epic", f.E1))
	add("2-claimers/S_big", f.SBig, claimReq("a1"), claimReq("a2"))
	add("2-claimers/S_long", f.SLong, claimReq("a1"), claimReq("a2"))
	add("3-claimers/S_A", f.SA, claimReq("a1"), claimReq("a2"), claimReq("a3"))
	add("2-claimers+put-back/S_held", f.SHeld, claimReq("a1"), claimReq("a2"), core.R("", "--json", "set", f.T1).In(`{"state":"todo"}`))
	add("2-claimers+dep-done/S_dep", f.SDep, claimReq("a1"), claimReq("a2"), core.R("", "--json", "set", f.T1).In(`{"state":"done"}`))
	add("claimer+new-task/S_one", f.SOne, claimReq("a1"), core.R("", "--json", "new", "task").In(`{"title":"fresh"}`))
	add("2-claimers+prune/S_A", f.SA, claimReq("a1"), claimReq("a2"), core.R("", "--json", "prune", "--yes"))
	add("2-claimers+compact/S_A", f.SA, claimReq("a1"), claimReq("a2"), core.R("", "--json", "compact"))
	add("claimer+compact/S_A-legacy-file", legacyNamed(f.SA), claimReq("a1"), core.R("", "--json", "compact"))
	add("2-claimers+compact/S_A-legacy-file", legacyNamed(f.SA), claimReq("a1"), claimReq("a2"), core.R("", "--json", "compact"))
	add("claimer+init/S_A-legacy-file", legacyNamed(f.SA), claimReq("a1"), core.R("", "--json", "init"))
	{
		// nothing is ready although a task is todo: its epic waits for an epic whose only unfinished child is in state error;
		// another todo task is claimed-but-todo (what a torn claim leaves), a third depends on a blocked one
		l := newSynLog()
		pre, dep := core.IDFor(9811), core.IDFor(9812)
		x, y, z, b, c := core.IDFor(9813), core.IDFor(9814), core.IDFor(9815), core.IDFor(9816), core.IDFor(9817)
		l.Create(SynItem{ID: pre, Epic: true, Title: "PRE"})
		l.Create(SynItem{ID: dep, Epic: true, Title: "DEP"})
		l.Create(SynItem{ID: x, Title: "x failed"}) // created unfiled, filed under PRE afterwards
		l.Create(SynItem{ID: y, Title: "y waits for PRE", In: dep})
		l.Create(SynItem{ID: z, Title: "z claimed but todo"})
		l.Create(SynItem{ID: b, Title: "b blocked"})
		l.Create(SynItem{ID: c, Title: "c waits for b"})
		l.Epic(x, pre)
		l.Link(dep, pre)
		l.Link(c, b)
		l.Claim(x, "w")
		l.State(x, "doing")
		l.State(x, "error")
		l.Claim(z, "torn")
		l.State(b, "blocked")
		// DEP also waits for an epic that IS complete (a verdict taken from the first prerequisite met would be wrong
		// for one of the two iteration orders), and q waits for a finished-and-pruned task as well as for the blocked one
		// (cleaning up after the tombstone must take away that one edge only)
		okE, okT, gone, q := core.IDFor(9818), core.IDFor(9819), core.IDFor(9820), core.IDFor(9810)
		l.Create(SynItem{ID: okE, Epic: true, Title: "OK (complete)"})
		l.Create(SynItem{ID: okT, Title: "ok done", In: okE})
		l.Create(SynItem{ID: gone, Title: "gone: done and pruned"})
		l.Create(SynItem{ID: q, Title: "q waits for gone and b"})
		l.Link(dep, okE)
		l.Link(q, gone)
		l.Link(q, b)
		// r1 / r2 wait for a finished task that is still there and for the blocked one; the two links are recorded in
		// either order (a verdict taken from whichever dependency is looked at last is wrong for one iteration order)
		r1, r2 := core.IDFor(9808), core.IDFor(9809)
		l.Create(SynItem{ID: r1, Title: "r1 waits for ok-done and b"})
		l.Create(SynItem{ID: r2, Title: "r2 waits for b and ok-done"})
		l.Link(r1, okT)
		l.Link(r1, b)
		l.Link(r2, b)
		l.Link(r2, okT)
		l.State(gone, "done")
		l.Tombstone(gone)
		l.State(okT, "done")
		nothing := core.Store{".ergo/plans.jsonl": l.Bytes(), ".ergo/lock": nil}
		add("2-claimers/nothing-ready", nothing, claimReq("a1"), claimReq("a2", "--epic", dep))
	}
	{
		// one ready task whose creation is stamped ahead of this machine's clock (created on a host with a fast clock):
		// the claim that takes it is stamped earlier than the task's own creation. Two claimers and a compact.
		l := newSynLog()
		l.t = l.t.AddDate(70, 0, 0)
		l.Create(SynItem{ID: core.IDFor(9801), Title: "from the future"})
		ahead := core.Store{".ergo/plans.jsonl": l.Bytes(), ".ergo/lock": nil}
		add("2-claimers+compact/S_created-ahead-of-the-clock", ahead, claimReq("a1"), claimReq("a2"), core.R("", "--json", "compact"))
	}
	{
		// exactly one ready task, and it is ready for a reason an index can get wrong: its epic depends on an epic that has no
		// tasks at all (complete by definition) and on one whose only child is canceled; its own dependency is done
		l := newSynLog()
		a, a2, b := core.IDFor(9821), core.IDFor(9822), core.IDFor(9823)
		t, d, x := core.IDFor(9824), core.IDFor(9825), core.IDFor(9826)
		l.Create(SynItem{ID: a, Epic: true, Title: "A (no tasks)"})
		l.Create(SynItem{ID: a2, Epic: true, Title: "A2 (one canceled task)"})
		l.Create(SynItem{ID: b, Epic: true, Title: "B"})
		l.Create(SynItem{ID: x, Title: "x canceled", In: a2})
		l.Create(SynItem{ID: d, Title: "d done"})
		l.Create(SynItem{ID: t, Title: "t the one ready task", In: b})
		l.Link(b, a)
		l.Link(b, a2)
		l.Link(t, d)
		l.State(x, "canceled")
		l.State(d, "done")
		one := core.Store{".ergo/plans.jsonl": l.Bytes(), ".ergo/lock": nil}
		add("2-claimers/one-ready", one, claimReq("a1"), claimReq("a2", "--epic", b))
	}
	{
		// three ready tasks created within one second, the oldest exactly on the second (its timestamp text is the
		// shortest): two claimers must end up with the two oldest, whatever the ids are
		l := newSynLog()
		l.t = l.t.Truncate(time.Second).Add(5 * time.Second)
		for k, tt := range []string{"A oldest", "B middle", "C youngest"} {
			ts := l.t.Add(time.Duration(k) * 300 * time.Millisecond).Format(time.RFC3339Nano)
			id := core.IDFor(int64(9833 - k)) // (ids in no particular relation to the creation order)
			l.ev("new_task", ts, map[string]interface{}{"id": id, "uuid": "u-" + id, "epic_id": "", "state": "todo", "title": tt, "body": "", "created_at": ts})
		}
		add("2-claimers/two-oldest-of-three", core.Store{".ergo/plans.jsonl": l.Bytes(), ".ergo/lock": nil}, claimReq("a1"), claimReq("a2"))
	}
	if env.Thorough() {
		add("4-claimers/S_A", f.SA, claimReq("a1"), claimReq("a2"), claimReq("a3"), claimReq("a4"))
		add("3-claimers/S_one", f.SOne, claimReq("a1"), claimReq("a2"), claimReq("a3"))
	}
	st := newSchedStats()
	// cheap phases first, so that a slow machine cannot push them past the deadline
	st.PerScenario["io-error-phase"] = faultPhase(env, "C01", f.SA, []crashCmd{{"claim", claimReq("a1")}, {"claim--epic", claimReq("a1", "--epic", f.E1)}})
	for _, sc := range scs {
		if !env.TimeLeft() {
			st.Exhaustive = false
			break
		}
		bound := 2
		if env.Thorough() {
			bound = 3
			if len(sc.Procs) == 2 {
				bound = 4
			}
		}
		judge := serialJudge(env, "C01", sc, true)
		outc := st.Outcomes
		exploreScenario(env, st, "C01", sc, bound, false, func(w *core.Worker, ex *sched.Exec) (string, string) {
			sig, d := judge(w, ex)
			var parts []string
			for i, r := range ex.Results {
				parts = append(parts, fmt.Sprintf("p%d:%d", i, r.Exit))
			}
			outc.inc(sc.Name + " " + strings.Join(parts, ","))
			if len(ex.Steps) > 0 && ex.Preempts == 2 {
				st.Samples.add(map[string]interface{}{"scenario": sc.Name, "schedule": ex.Schedule()})
			}
			return sig, d
		})
		env.Logf("scenario %s done: %v", sc.Name, st.PerScenario[sc.Name])
	}
	finishSched(env, st, "every interleaving of the hooked shared-state steps of 2-4 real claim processes (alone and with a put-back, dependency-finishing, creating, pruning or compacting writer) up to the preemption bound; oracle: serial equivalence on the real implementation in an order consistent with real time + direct claim invariants")
}

func finishSched(env *core.Env, st *schedStats, rule string) {
	if len(st.Samples.list) == 0 {
		st.Samples.add("(no schedule with 2 preemptions was explored)")
	}
	env.Finish("model_checking", map[string]interface{}{
		"states": st.Executions, "transitions": st.Executions, "traces_validated_against_impl": st.Executions,
		"samples": st.Samples.list, "exhaustive": st.Exhaustive, "bound_completed": st.BoundCompleted,
		"scenarios": st.PerScenario, "schedules_executed": st.Executions, "distinct_outcome_vectors": st.Outcomes.len(),
		"explanation":            rule + ". states/transitions count complete executions (stateless search); every execution runs the real binary, so each one is itself validated against the implementation.",
		"unconfirmed_candidates": unconfirmed.Load(),
	}, []string{
		"scheduling points are the verifPoint hooks before every store operation (lock open/try/held/release, path stat, log open/probe/read chunk, append open/write, temp write/flush/sync, rename, dir sync); code between two hooks is treated as atomic",
		"a single write(2)/rename(2) is indivisible to other processes",
		"bound_completed is the smallest preemption bound completed over all scenarios",
	})
}

// legacyNamed returns the store with its log under the legacy file name events.jsonl.
func legacyNamed(st core.Store) core.Store {
	c := st.Clone()
	if b, ok := c[".ergo/plans.jsonl"]; ok {
		c[".ergo/events.jsonl"] = b
		delete(c, ".ergo/plans.jsonl")
	}
	return c
}
