package checks

import (
	"crypto/sha256"
	"encoding/hex"
	"encoding/json"
	"fmt"
	"net/url"
	"os"
	"path/filepath"
	"strings"
	"sync/atomic"
	"time"

	"verif/internal/core"
)

func init() { Registry["C20"] = runC20 }

// c20Tree is the fixed project tree the paths are resolved against.
func c20Tree(base core.Store) core.Store {
	st := base.Clone()
	st["a"] = []byte("content of a\n")
	st["docs/a"] = []byte("content of docs/a\n")
	st["docs/日本"] = []byte("unicode name\n")
	st["日本"] = []byte("top-level unicode name\n")
	st[".ergo2/a"] = []byte("looks like .ergo but is not\n")
	st["..x"] = []byte("starts with two dots but is a plain name\n")
	// names with characters that mean something in a URL: the derived file_url must still denote exactly this file
	st["100%.txt"] = []byte("percent at the end of the stem\n")
	st["My%20Report.pdf"] = []byte("a literal percent-escape in the name\n")
	st["docs/a b#c?d"] = []byte("space, hash and question mark\n")
	st["L:link-mem"] = []byte("/proc/self/mem") // stat says regular file, every read fails with EIO
	st["D:emptydir"] = nil
	st["L:link-file"] = []byte("a")
	st["L:link-dir"] = []byte("docs")
	st["L:link-out"] = []byte("/etc/hostname")
	st["L:dangling"] = []byte("no-such-target")
	st["L:link-null"] = []byte("/dev/null")
	st["L:link-ergo"] = []byte(".ergo/plans.jsonl")
	return st
}

func c20Paths(thorough bool) []string {
	comps := []string{"a", "docs", "..", ".", ".ergo", ".ergo2", "..x", "", "日本", "link-file", "link-dir", "link-out", "dangling", "link-null", "missing", "plans.jsonl", "emptydir", "link-ergo", "100%.txt", "My%20Report.pdf", "a b#c?d", "link-mem"}
	small := []string{"a", "docs", "..", ".", ".ergo", "link-dir", "plans.jsonl"}
	seen := map[string]bool{}
	var out []string
	add := func(p string) {
		for _, v := range []string{p, "/" + p, p + "/", "/" + p + "/"} {
			if !seen[v] {
				seen[v] = true
				out = append(out, v)
			}
		}
	}
	for _, a := range comps {
		add(a)
		for _, b := range comps {
			add(a + "/" + b)
		}
	}
	for _, a := range comps {
		for _, b := range comps {
			for _, c := range comps {
				add(a + "/" + b + "/" + c)
			}
		}
	}
	if thorough {
		for _, a := range small {
			for _, b := range comps {
				for _, c := range small {
					for _, d := range small {
						add(a + "/" + b + "/" + c + "/" + d)
					}
				}
			}
		}
	}
	return out
}

func runC20(env *core.Env) {
	w0 := env.W0()
	rich := buildRich(env, w0)
	tree := c20Tree(rich.Store)
	paths := c20Paths(env.Thorough())
	type job struct {
		path, target, tkind, summary string
		mode                         string
	}
	var jobs []job
	task := rich.ByState["todo"]
	for _, p := range paths {
		jobs = append(jobs, job{p, task, "task", "a fine summary", "json"})
	}
	// escapes into existing files outside the root: a sibling directory whose name merely starts with the project
	// directory's name (created next to every worker's project below), the parent directory itself, an unrelated sibling
	for _, p := range []string{"../@BASE@-backup/secret.txt", "docs/../../@BASE@-backup/secret.txt", "../@BASE@-backup/../@BASE@-backup/secret.txt", "../@BASE@x", "../other/secret.txt", "./../@BASE@-backup/secret.txt"} {
		jobs = append(jobs, job{p, task, "task", "outside the root", "json"}, job{p, task, "task", "outside the root", "flags"})
	}
	// targets and summaries and input modes on a handful of paths
	for _, p := range []string{"a", "docs/a", "./docs/../a", "link-file", "link-null", "docs", "../a", ".ergo/plans.jsonl"} {
		for _, t := range [][2]string{{rich.E1, "epic"}, {rich.PrunedTask, "pruned"}, {rich.Unknown, "unknown"}, {rich.ByState["done"], "task"}, {rich.ByState["doing"], "task"}} {
			jobs = append(jobs, job{p, t[0], t[1], "a fine summary", "json"})
		}
		for _, s := range []string{"", " ", strings.Repeat("x", 120), strings.Repeat("x", 121), "two\nlines", "  padded  ", strings.Repeat("é", 60), strings.Repeat("é", 61), "tab\tinside"} {
			jobs = append(jobs, job{p, task, "task", s, "json"})
		}
		jobs = append(jobs, job{p, task, "task", "via flags", "flags"}, job{p, task, "task", "via body-stdin", "bodystdin"})
	}
	env.Logf("%d attach requests", len(jobs))
	conf := newConformer(len(jobs)/280+1, 300)
	var evals, accepted int64
	classes := newCounter()
	samples := &sampleSet{max: 10}
	env.Parallel(len(jobs), func(w *core.Worker, i int) {
		if !env.TimeLeft() {
			return
		}
		j := jobs[i]
		tree.Materialize(w.Proj)
		st := tree // the store the replay artefact carries
		outside := strings.Contains(j.path, "@BASE@") || strings.Contains(j.path, "../other/")
		if outside {
			// every project directory of the harness (workers, replay, conformance) is called "proj"
			j.path = strings.ReplaceAll(j.path, "@BASE@", "proj")
			st = tree.Clone()
			st["../proj-backup/secret.txt"] = []byte("outside the project\n")
			st["../other/secret.txt"] = []byte("outside the project\n")
			st["../projx"] = []byte("outside the project\n")
			st.Materialize(w.Proj)
		}
		var req core.Req
		switch j.mode {
		case "json":
			req = core.R(w.Proj, "--json", "set", j.target).In(jsonStr(map[string]string{"result_path": j.path, "result_summary": j.summary}))
		case "flags":
			req = core.R(w.Proj, "--json", "set", j.target, "--result-path", j.path, "--result-summary", j.summary)
		default:
			req = core.R(w.Proj, "--json", "set", j.target, "--result-path", j.path, "--result-summary", j.summary, "--body-stdin").In("body too")
		}
		res := w.Run(req)
		atomic.AddInt64(&evals, 1)
		if !outside {
			conf.offer(w.Proj, tree, req, res)
		}
		bad := func(kind, detail string, as ...Assert) {
			report(env, "C20 kind="+kind, fmt.Sprintf("path %q target=%s summary=%q mode=%s: %s", j.path, j.tkind, clipS(j.summary, 30), j.mode, detail), mkTrace(st, kind, []core.Req{req}, as...))
		}
		if res.Panic || res.Timeout {
			bad("crash-or-hang", res.String(), Assert{Kind: "exit_nonzero", Step: 1})
			return
		}
		clean := filepath.Clean(j.path)
		lexOK := j.path != "" && !filepath.IsAbs(clean) && clean != ".." && !strings.HasPrefix(clean, "../") && clean != ".ergo" && !strings.HasPrefix(clean, ".ergo/")
		fi, statErr := os.Stat(filepath.Join(w.Proj, clean))
		regular := statErr == nil && fi.Mode().IsRegular()
		kindOfFile := "missing"
		if statErr == nil {
			switch {
			case fi.Mode().IsRegular():
				kindOfFile = "regular"
			case fi.IsDir():
				kindOfFile = "directory"
			default:
				kindOfFile = "special:" + fi.Mode().Type().String()
			}
		}
		classes.inc(fmt.Sprintf("target=%s lexical-ok=%v file=%s accepted=%v", j.tkind, lexOK, kindOfFile, res.Exit == 0))
		after, _ := core.Snapshot(w.Proj)
		if res.Exit != 0 {
			if d := c10Diff(tree, after); d != "" {
				bad("rejected-attach-wrote changed="+d, d, Assert{Kind: "exit_nonzero", Step: 1}, Assert{Kind: "log_differs", Step: 1, Other: 0})
			}
			return
		}
		atomic.AddInt64(&accepted, 1)
		switch {
		case j.tkind != "task":
			bad("attached-to-non-task target="+j.tkind, "exit 0", Assert{Kind: "exit_zero", Step: 1})
			return
		case !lexOK:
			bad("path-escapes-confinement class="+pathClass(j.path, clean), fmt.Sprintf("accepted although the cleaned path is %q", clean), Assert{Kind: "exit_zero", Step: 1})
			return
		case !regular:
			bad("non-regular-file-accepted file="+kindOfFile, fmt.Sprintf("accepted although %q is %s", clean, kindOfFile), Assert{Kind: "exit_zero", Step: 1})
			return
		}
		sh, err := core.ParseShow(w.Run(core.R(w.Proj, "--json", "show", j.target)).Out)
		if err != nil || len(sh.Results) == 0 {
			bad("accepted-result-not-shown", "show lists no result", Assert{Kind: "exit_zero", Step: 1})
			return
		}
		r := sh.Results[0]
		content, rerr := os.ReadFile(filepath.Join(w.Proj, clean))
		if rerr != nil {
			// the file cannot be read (here: a link to /proc/self/mem), so no hash of its content exists; an attach that
			// nevertheless succeeds has recorded something else
			bad("unreadable-file-accepted", fmt.Sprintf("accepted although reading %q fails (%v); recorded sha %s", clean, rerr, r.Sha256), Assert{Kind: "exit_zero", Step: 1})
			return
		}
		if real, err := filepath.EvalSymlinks(filepath.Join(w.Proj, clean)); err == nil && strings.HasPrefix(real, filepath.Join(w.Proj, ".ergo")+"/") {
			content = tree[strings.TrimPrefix(real, w.Proj+"/")] // a symlink onto the log itself: the command changed it; hash what it held at attach time
		}
		sum := sha256.Sum256(content)
		if r.Path != clean {
			bad("recorded-path-not-cleaned", fmt.Sprintf("recorded %q, cleaned path is %q", r.Path, clean), Assert{Kind: "exit_zero", Step: 1})
		}
		if r.Sha256 != hex.EncodeToString(sum[:]) {
			bad("sha256-is-not-the-file-hash", fmt.Sprintf("recorded %s, file hashes to %s", r.Sha256, hex.EncodeToString(sum[:])), Assert{Kind: "exit_zero", Step: 1})
		}
		// core.Observe is not used here, so the URL still carries the real root
		var raw struct {
			Results []struct {
				FileURL string `json:"file_url"`
			} `json:"results"`
		}
		json.Unmarshal(w.Run(core.R(w.Proj, "--json", "show", j.target)).Out, &raw)
		if len(raw.Results) > 0 {
			u, perr := url.Parse(raw.Results[0].FileURL)
			if perr != nil || u.Scheme != "file" || u.Host != "" || u.Path != filepath.Join(w.Proj, clean) {
				bad("file-url-wrong", fmt.Sprintf("file_url %q does not denote file://%s", raw.Results[0].FileURL, filepath.Join(w.Proj, clean)), Assert{Kind: "exit_zero", Step: 1})
			}
		}
		if r.Summary != strings.TrimSpace(j.summary) {
			bad("summary-altered", fmt.Sprintf("recorded %q for %q", r.Summary, j.summary), Assert{Kind: "exit_zero", Step: 1})
		}
		if strings.TrimSpace(j.summary) == "" || strings.ContainsAny(strings.TrimSpace(j.summary), "\n\r") {
			bad("bad-summary-accepted", fmt.Sprintf("%q", j.summary), Assert{Kind: "exit_zero", Step: 1})
		}
		had := 0
		if j.target == rich.ByState["done"] {
			had = 1 // the fixture's done task already carries one result
		}
		if len(sh.Results) != had+1 {
			bad("result-count", fmt.Sprintf("%d results after one attach (had %d)", len(sh.Results), had), Assert{Kind: "exit_zero", Step: 1})
		}
		if i%400 == 0 {
			samples.add(map[string]interface{}{"path": j.path, "cleaned": clean, "accepted": true})
		}
	})

	// ---- history: results accumulate newest first and survive every later command and compaction ----
	type hist struct {
		obs  core.Obs
		want []string // expected "summary|path|sha" newest first
	}
	target := rich.ByState["todo"]
	other := rich.ByState["blocked"]
	depth := 4
	if env.Thorough() {
		depth = 5
	}
	var histStates int64
	b := &BFS{Env: env, Roots: []core.Store{tree}, MaxDepth: depth, MaxStates: 300000}
	b.KeyFn = func(w *core.Worker, st core.Store) (string, interface{}) {
		k, _ := canonLogKey(w, st)
		return k, nil
	}
	b.Ops = func(n *Node) []core.Req {
		j := func(id string, m map[string]string, extra ...string) core.Req {
			return core.R("", append(append([]string{"--json"}, extra...), "set", id)...).In(jsonStr(m))
		}
		return []core.Req{
			j(target, map[string]string{"result_path": "a", "result_summary": "first kind"}),
			j(target, map[string]string{"result_path": "docs/a", "result_summary": "second kind"}),
			j(target, map[string]string{"result_path": "a", "result_summary": "with state", "state": "done"}),
			j(target, map[string]string{"state": "todo"}), j(target, map[string]string{"state": "done"}),
			j(target, map[string]string{"title": "renamed"}), j(target, map[string]string{"epic": rich.E2}),
			j(target, map[string]string{"claim": "ag"}),
			j(other, map[string]string{"result_path": "日本", "result_summary": "on another task"}),
			core.R("", "--json", "compact"), core.R("", "--json", "prune", "--yes"), core.R("", "--json", "claim", "--agent", "z"),
		}
	}
	expected := func(n *Node) []string { // replay the path against the model
		var want []string
		for _, r := range n.Path {
			if r.Stdin == nil || !strings.Contains(strings.Join(r.Args, " "), "set "+target) {
				continue
			}
			var m map[string]string
			json.Unmarshal(*r.Stdin, &m)
			if p, ok := m["result_path"]; ok {
				want = append([]string{m["result_summary"] + "|" + p}, want...)
			}
		}
		return want
	}
	b.OnTransition = func(w *core.Worker, n *Node, req core.Req, res core.Res, after core.Store) {
		if res.Exit != 0 && strings.Contains(strings.Join(req.Args, " "), "set "+target) && req.Stdin != nil && strings.Contains(string(*req.Stdin), "result_path") {
			// a rejected attach (e.g. illegal transition in the same request, or pruned target) must not count: mark by failing path
		}
	}
	b.Expand = func(n *Node, req core.Req, res core.Res, after core.Store) bool { return res.Exit == 0 }
	b.OnState = func(w *core.Worker, n *Node) {
		atomic.AddInt64(&histStates, 1)
		want := expected(n)
		r := w.Run(core.R(w.Proj, "--json", "show", target))
		if r.Exit != 0 {
			return // target pruned (done + prune): nothing to show
		}
		sh, err := core.ParseShow(r.Out)
		if err != nil {
			return
		}
		var got []string
		for _, x := range sh.Results {
			got = append(got, x.Summary+"|"+x.Path)
		}
		// requests that combine a result with a rejected field keep the result (K2) - only successful requests are on the path
		if strings.Join(got, ";") != strings.Join(want, ";") {
			report(env, "C20 kind=results-list-wrong", fmt.Sprintf("after %v the task shows results %v, expected (newest first) %v", n.Shell(), got, want),
				mkTrace(tree, "results dropped, duplicated or reordered", n.Path, Assert{Kind: "exit_zero", Step: len(n.Path)}))
		}
		for k, x := range sh.Results {
			content, _ := os.ReadFile(filepath.Join(w.Proj, x.Path))
			sum := sha256.Sum256(content)
			if x.Sha256 != hex.EncodeToString(sum[:]) {
				report(env, "C20 kind=evidence-altered-later", fmt.Sprintf("result %d of %v has sha %s", k, n.Shell(), x.Sha256), mkTrace(tree, "evidence altered", n.Path))
			}
		}
	}
	b.Run()
	mergedCov := c20MergedHistories(env)
	fileCov := c20FileChanges(env, tree, target)
	validated := conf.run(env)
	env.Finish("model_checking", map[string]interface{}{
		"merged_histories": mergedCov, "file_change_sequences": fileCov,
		"states": int64(len(jobs)) + histStates, "transitions": evals + b.Transitions, "traces_validated_against_impl": validated, "samples": samples.list,
		"exhaustive": env.TimeLeft() && (b.CapHit == "" || b.CapHit == "max_depth"), "attach_requests": evals, "accepted": accepted, "path_strings": len(paths),
		"history_states": histStates, "history_depth": b.DepthDone, "outcome_classes": classes.snapshot(), "distinct_outcome_classes": classes.len(),
		"unconfirmed_candidates": unconfirmed.Load(),
		"bound":                  "every path of <=3 components (thorough: + 4 components over a reduced alphabet) over {a, docs, .., ., .ergo, .ergo2, ..x, empty, unicode, symlink to file/dir/outside/dangling//dev/null/.ergo log//proc/self/mem (regular by stat, unreadable), missing, plans.jsonl, empty dir, names containing % / %20 / space # ?}, each with/without leading and trailing slash, against a fixed project tree; x targets {task in 3 states, epic, pruned, unknown} and 9 summaries and 3 input modes on 8 paths; then every history of depth <=4 (5) of later commands (further results, state/title/epic/claim changes, results on another task, claim, prune, compact)",
	}, []string{"lexical confinement is judged on filepath.Clean of the input; 'existing regular file' follows symlinks (os.Stat)", "over-rejection is not a violation; accepted cases are counted so vacuity is visible", "FIFOs are not in the tree: reading one blocks the command (it would be the same non-regular-file class as the /dev/null symlink)"})
}

func pathClass(raw, clean string) string {
	switch {
	case filepath.IsAbs(clean):
		return "absolute"
	case clean == ".." || strings.HasPrefix(clean, "../"):
		return "dotdot-outside"
	case clean == ".ergo" || strings.HasPrefix(clean, ".ergo/"):
		return "inside-.ergo"
	case raw == "":
		return "empty"
	}
	return "other"
}

// c20MergedHistories: logs in which the result events of one task carry every assignment of three timestamps
// (in order, out of order, equal - what merging two clones' logs or a clock step leaves). Whatever order `show`
// gives them, compaction and later commands must keep exactly that order, and a further attach goes in front.
func c20MergedHistories(env *core.Env) map[string]interface{} {
	base := time.Date(2026, 3, 1, 10, 0, 0, 0, time.UTC)
	type job struct{ ts [3]int }
	var jobs []job
	for a := 0; a < 3; a++ {
		for b := 0; b < 3; b++ {
			for c := 0; c < 3; c++ {
				jobs = append(jobs, job{[3]int{a, b, c}})
			}
		}
	}
	var compared int64
	env.Parallel(len(jobs), func(w *core.Worker, i int) {
		j := jobs[i]
		l := newSynLog()
		id, other := core.IDFor(9300), core.IDFor(9301)
		l.Create(SynItem{ID: id, Title: "carrier"})
		l.Create(SynItem{ID: other, Title: "other"})
		for k := 0; k < 3; k++ {
			ts := base.Add(time.Duration(j.ts[k]) * time.Hour).Format(time.RFC3339Nano)
			sum := sha256.Sum256([]byte(fmt.Sprintf("content %d", k)))
			l.ev("result", ts, map[string]interface{}{"task_id": id, "summary": fmt.Sprintf("result %d", k), "path": "a", "sha256_at_attach": hex.EncodeToString(sum[:]), "ts": ts})
			if k == 1 {
				l.State(other, "done") // an unrelated event in between
			}
		}
		st := core.Store{".ergo/plans.jsonl": l.Bytes(), ".ergo/lock": nil, "a": []byte("now\n")}
		order := func() (string, bool) {
			r := w.Run(core.R(w.Proj, "--json", "show", id))
			sh, err := core.ParseShow(r.Out)
			if r.Exit != 0 || err != nil {
				return r.String(), false
			}
			var xs []string
			for _, x := range sh.Results {
				xs = append(xs, x.Summary+"|"+x.Sha256[:8]+"|"+x.CreatedAt)
			}
			return strings.Join(xs, " ; "), true
		}
		st.Materialize(w.Proj)
		before, ok := order()
		if !ok || strings.Count(before, ";") != 2 {
			report(env, "C20 kind=merged-history-results-not-all-shown", fmt.Sprintf("timestamps %v: show gives %s", j.ts, before), mkTrace(st, "three result events", []core.Req{core.R("", "--json", "show", id)}, Assert{Kind: "exit_zero", Step: 1}))
			return
		}
		for _, path := range [][]core.Req{
			{core.R("", "--json", "compact")},
			{core.R("", "--json", "compact"), core.R("", "--json", "compact")},
			{core.R("", "--json", "set", id).In(`{"title":"renamed"}`), core.R("", "--json", "compact")},
			{core.R("", "--json", "prune", "--yes"), core.R("", "--json", "compact")},
		} {
			st.Materialize(w.Proj)
			for _, r := range path {
				r.Cwd = w.Proj
				w.Run(r)
			}
			after, ok := order()
			atomic.AddInt64(&compared, 1)
			if !ok || after != before {
				tr := mkTrace(st, "results before vs after", path, Assert{Kind: "show_differs", Step: len(path), Other: 0, Text: id})
				report(env, "C20 kind=results-reordered-by-compaction", fmt.Sprintf("result events with timestamps (hours) %v in log order: show lists [%s] before and [%s] after %v", j.ts, before, after, shellOf(path)), tr)
				return
			}
		}
		// a further attach goes in front and leaves the rest as it was
		st.Materialize(w.Proj)
		w.Run(core.R(w.Proj, "--json", "set", id).In(`{"result_path":"a","result_summary":"fresh"}`))
		after, _ := order()
		atomic.AddInt64(&compared, 1)
		if i := strings.Index(after, " ; "); !strings.HasPrefix(after, "fresh|") || i < 0 || after[i+3:] != before {
			report(env, "C20 kind=attach-disturbs-earlier-results", fmt.Sprintf("timestamps %v: before [%s], after one more attach [%s]", j.ts, before, after),
				mkTrace(st, "attach on a merged history", []core.Req{core.R("", "--json", "set", id).In(`{"result_path":"a","result_summary":"fresh"}`)}, Assert{Kind: "exit_zero", Step: 1}))
		}
	})
	return map[string]interface{}{"logs": len(jobs), "comparisons": compared,
		"rule": "3 result events of one task with every assignment of 3 timestamps (27: ordered, reversed, equal), an unrelated event in between; result list (summary, sha, created_at) identical before/after compact, compact twice, set+compact, prune+compact; one more attach goes in front"}
}

func shellOf(rs []core.Req) []string {
	var out []string
	for _, r := range rs {
		out = append(out, r.Shell())
	}
	return out
}

// c20FileChanges: every sequence (depth 4, thorough 5) over {attach a, attach docs/a, rewrite a (same length, mtime
// kept), rewrite a (other length, mtime kept), rewrite a (new mtime), touch a, compact}; after every step each
// result shown must carry the hash the file had at the moment of its own attach.
func c20FileChanges(env *core.Env, tree core.Store, target string) map[string]interface{} {
	ops := []string{"attach-a", "attach-docs/a", "rewrite-same-len-keep-mtime", "rewrite-other-len-keep-mtime", "rewrite-new-mtime", "touch", "compact"}
	depth := 4
	if env.Thorough() {
		depth = 5
	}
	var paths [][]int
	var rec func(p []int)
	rec = func(p []int) {
		if len(p) == depth {
			paths = append(paths, append([]int{}, p...))
			return
		}
		for i := range ops {
			rec(append(p, i))
		}
	}
	rec(nil)
	var steps int64
	env.Parallel(len(paths), func(w *core.Worker, i int) {
		if !env.TimeLeft() {
			return
		}
		var names []string
		for _, oi := range paths[i] {
			names = append(names, ops[oi])
		}
		at, got, want := c20FileSeq(w.Run, w.Proj, tree, target, names)
		atomic.AddInt64(&steps, int64(len(names)))
		if at < 0 {
			return
		}
		sig := "C20 kind=sha256-is-not-the-hash-at-attach after=" + names[at]
		if env.ViolationSeen(sig) {
			return
		}
		art := map[string]interface{}{"kind": "file-changes", "store": tree, "target": target, "ops": names[:at+1]}
		for k := 0; k < 5; k++ { // confirm with spawned production binaries
			if a, _, _ := c20FileSeq(core.Spawn{Bin: env.Prod}.Run, w.Proj, tree, target, names[:at+1]); a < 0 {
				unconfirmed.Add(1)
				return
			}
		}
		env.Violation(sig, fmt.Sprintf("after %v on task %s (all mtimes set explicitly): show lists %v, hashes at the moments of attach were %v", names[:at+1], target, got, want), art)
	})
	return map[string]interface{}{"sequences": len(paths), "depth": depth, "steps_checked": steps, "alphabet": ops,
		"rule": "every sequence over the alphabet; the model records sha256(file) at each accepted attach; after every step show must list exactly those hashes, newest first"}
}

// c20FileSeq runs one sequence of file changes and attaches in proj; returns the index of the first step after which
// show disagrees with the hashes recorded by the model at attach time (-1: none).
func c20FileSeq(run func(core.Req) core.Res, proj string, tree core.Store, target string, names []string) (int, []string, []string) {
	t0 := time.Date(2026, 2, 2, 12, 0, 0, 0, time.UTC)
	tree.Materialize(proj)
	fa := filepath.Join(proj, "a")
	os.Chtimes(fa, t0, t0)
	os.Chtimes(filepath.Join(proj, "docs/a"), t0, t0)
	var want []string // path|sha at attach, newest first
	gen := 0
	for at, op := range names {
		switch op {
		case "attach-a", "attach-docs/a":
			p := strings.TrimPrefix(op, "attach-")
			c, _ := os.ReadFile(filepath.Join(proj, p))
			sum := sha256.Sum256(c)
			r := run(core.R(proj, "--json", "set", target).In(jsonStr(map[string]string{"result_path": p, "result_summary": "s"})))
			if r.Exit == 0 {
				want = append([]string{p + "|" + hex.EncodeToString(sum[:])}, want...)
			}
		case "rewrite-same-len-keep-mtime", "rewrite-other-len-keep-mtime", "rewrite-new-mtime":
			gen++
			fi, _ := os.Stat(fa)
			content := fmt.Sprintf("content %02d a\n", gen%100) // same length as the fixture's "content of a\n"
			if op == "rewrite-other-len-keep-mtime" {
				content += strings.Repeat("+", gen)
			}
			os.WriteFile(fa, []byte(content), 0o644)
			if op == "rewrite-new-mtime" {
				nt := t0.Add(time.Duration(gen) * time.Minute)
				os.Chtimes(fa, nt, nt)
			} else {
				os.Chtimes(fa, fi.ModTime(), fi.ModTime())
			}
		case "touch":
			gen++
			nt := t0.Add(time.Duration(gen) * time.Minute)
			os.Chtimes(fa, nt, nt)
		case "compact":
			run(core.R(proj, "--json", "compact"))
		}
		sh, err := core.ParseShow(run(core.R(proj, "--json", "show", target)).Out)
		if err != nil {
			continue
		}
		var got []string
		for _, x := range sh.Results {
			got = append(got, x.Path+"|"+x.Sha256)
		}
		if strings.Join(got, ";") != strings.Join(want, ";") {
			return at, got, want
		}
	}
	return -1, nil, nil
}

func init() {
	replayers["file-changes"] = func(env *core.Env, raw json.RawMessage) bool {
		var a struct {
			Store  map[string][]byte `json:"store"`
			Target string            `json:"target"`
			Ops    []string          `json:"ops"`
		}
		if err := json.Unmarshal(raw, &a); err != nil {
			env.HarnessError("bad file-changes replay: %v", err)
		}
		proj := filepath.Join(env.Scratch, "replay", "proj")
		os.MkdirAll(proj, 0o755)
		fmt.Printf("  steps on task %s: %v\n", a.Target, a.Ops)
		at, got, want := c20FileSeq(core.Spawn{Bin: env.Prod}.Run, proj, core.Store(a.Store), a.Target, a.Ops)
		if at >= 0 {
			fmt.Printf("  show lists %v; hashes at attach were %v\n", got, want)
		}
		return at >= 0
	}
}
