package checks

import (
	"crypto/sha256"
	"encoding/hex"
	"encoding/json"
	"fmt"
	"net/url"
	"os"
	"path/filepath"
	"strings"
	"sync/atomic"

	"verif/internal/core"
)

func init() { Registry["C20"] = runC20 }

// c20Tree is the fixed project tree the paths are resolved against.
func c20Tree(base core.Store) core.Store {
	st := base.Clone()
	st["a"] = []byte("content of a\n")
	st["docs/a"] = []byte("content of docs/a\n")
	st["docs/日本"] = []byte("unicode name\n")
	st["日本"] = []byte("top-level unicode name\n")
	st[".ergo2/a"] = []byte("looks like .ergo but is not\n")
	st["..x"] = []byte("starts with two dots but is a plain name\n")
	st["D:emptydir"] = nil
	st["L:link-file"] = []byte("a")
	st["L:link-dir"] = []byte("docs")
	st["L:link-out"] = []byte("/etc/hostname")
	st["L:dangling"] = []byte("no-such-target")
	st["L:link-null"] = []byte("/dev/null")
	st["L:link-ergo"] = []byte(".ergo/plans.jsonl")
	return st
}

func c20Paths(thorough bool) []string {
	comps := []string{"a", "docs", "..", ".", ".ergo", ".ergo2", "..x", "", "日本", "link-file", "link-dir", "link-out", "dangling", "link-null", "missing", "plans.jsonl", "emptydir", "link-ergo"}
	small := []string{"a", "docs", "..", ".", ".ergo", "link-dir", "plans.jsonl"}
	seen := map[string]bool{}
	var out []string
	add := func(p string) {
		for _, v := range []string{p, "/" + p, p + "/", "/" + p + "/"} {
			if !seen[v] {
				seen[v] = true
				out = append(out, v)
			}
		}
	}
	for _, a := range comps {
		add(a)
		for _, b := range comps {
			add(a + "/" + b)
		}
	}
	for _, a := range comps {
		for _, b := range comps {
			for _, c := range comps {
				add(a + "/" + b + "/" + c)
			}
		}
	}
	if thorough {
		for _, a := range small {
			for _, b := range comps {
				for _, c := range small {
					for _, d := range small {
						add(a + "/" + b + "/" + c + "/" + d)
					}
				}
			}
		}
	}
	return out
}

func runC20(env *core.Env) {
	w0 := env.W0()
	rich := buildRich(env, w0)
	tree := c20Tree(rich.Store)
	paths := c20Paths(env.Thorough())
	type job struct {
		path, target, tkind, summary string
		mode                         string
	}
	var jobs []job
	task := rich.ByState["todo"]
	for _, p := range paths {
		jobs = append(jobs, job{p, task, "task", "a fine summary", "json"})
	}
	// targets and summaries and input modes on a handful of paths
	for _, p := range []string{"a", "docs/a", "./docs/../a", "link-file", "link-null", "docs", "../a", ".ergo/plans.jsonl"} {
		for _, t := range [][2]string{{rich.E1, "epic"}, {rich.PrunedTask, "pruned"}, {rich.Unknown, "unknown"}, {rich.ByState["done"], "task"}, {rich.ByState["doing"], "task"}} {
			jobs = append(jobs, job{p, t[0], t[1], "a fine summary", "json"})
		}
		for _, s := range []string{"", " ", strings.Repeat("x", 120), strings.Repeat("x", 121), "two\nlines", "  padded  ", strings.Repeat("é", 60), strings.Repeat("é", 61), "tab\tinside"} {
			jobs = append(jobs, job{p, task, "task", s, "json"})
		}
		jobs = append(jobs, job{p, task, "task", "via flags", "flags"}, job{p, task, "task", "via body-stdin", "bodystdin"})
	}
	env.Logf("%d attach requests", len(jobs))
	conf := newConformer(len(jobs)/280+1, 300)
	var evals, accepted int64
	classes := newCounter()
	samples := &sampleSet{max: 10}
	env.Parallel(len(jobs), func(w *core.Worker, i int) {
		if !env.TimeLeft() {
			return
		}
		j := jobs[i]
		tree.Materialize(w.Proj)
		var req core.Req
		switch j.mode {
		case "json":
			req = core.R(w.Proj, "--json", "set", j.target).In(jsonStr(map[string]string{"result_path": j.path, "result_summary": j.summary}))
		case "flags":
			req = core.R(w.Proj, "--json", "set", j.target, "--result-path", j.path, "--result-summary", j.summary)
		default:
			req = core.R(w.Proj, "--json", "set", j.target, "--result-path", j.path, "--result-summary", j.summary, "--body-stdin").In("body too")
		}
		res := w.Run(req)
		atomic.AddInt64(&evals, 1)
		conf.offer(w.Proj, tree, req, res)
		bad := func(kind, detail string, as ...Assert) {
			report(env, "C20 kind="+kind, fmt.Sprintf("path %q target=%s summary=%q mode=%s: %s", j.path, j.tkind, clipS(j.summary, 30), j.mode, detail), mkTrace(tree, kind, []core.Req{req}, as...))
		}
		if res.Panic || res.Timeout {
			bad("crash-or-hang", res.String(), Assert{Kind: "exit_nonzero", Step: 1})
			return
		}
		clean := filepath.Clean(j.path)
		lexOK := j.path != "" && !filepath.IsAbs(clean) && clean != ".." && !strings.HasPrefix(clean, "../") && clean != ".ergo" && !strings.HasPrefix(clean, ".ergo/")
		fi, statErr := os.Stat(filepath.Join(w.Proj, clean))
		regular := statErr == nil && fi.Mode().IsRegular()
		kindOfFile := "missing"
		if statErr == nil {
			switch {
			case fi.Mode().IsRegular():
				kindOfFile = "regular"
			case fi.IsDir():
				kindOfFile = "directory"
			default:
				kindOfFile = "special:" + fi.Mode().Type().String()
			}
		}
		classes.inc(fmt.Sprintf("target=%s lexical-ok=%v file=%s accepted=%v", j.tkind, lexOK, kindOfFile, res.Exit == 0))
		after, _ := core.Snapshot(w.Proj)
		if res.Exit != 0 {
			if d := c10Diff(tree, after); d != "" {
				bad("rejected-attach-wrote changed="+d, d, Assert{Kind: "exit_nonzero", Step: 1}, Assert{Kind: "log_differs", Step: 1, Other: 0})
			}
			return
		}
		atomic.AddInt64(&accepted, 1)
		switch {
		case j.tkind != "task":
			bad("attached-to-non-task target="+j.tkind, "exit 0", Assert{Kind: "exit_zero", Step: 1})
			return
		case !lexOK:
			bad("path-escapes-confinement class="+pathClass(j.path, clean), fmt.Sprintf("accepted although the cleaned path is %q", clean), Assert{Kind: "exit_zero", Step: 1})
			return
		case !regular:
			bad("non-regular-file-accepted file="+kindOfFile, fmt.Sprintf("accepted although %q is %s", clean, kindOfFile), Assert{Kind: "exit_zero", Step: 1})
			return
		}
		sh, err := core.ParseShow(w.Run(core.R(w.Proj, "--json", "show", j.target)).Out)
		if err != nil || len(sh.Results) == 0 {
			bad("accepted-result-not-shown", "show lists no result", Assert{Kind: "exit_zero", Step: 1})
			return
		}
		r := sh.Results[0]
		content, _ := os.ReadFile(filepath.Join(w.Proj, clean))
		if real, err := filepath.EvalSymlinks(filepath.Join(w.Proj, clean)); err == nil && strings.HasPrefix(real, filepath.Join(w.Proj, ".ergo")+"/") {
			content = tree[strings.TrimPrefix(real, w.Proj+"/")] // a symlink onto the log itself: the command changed it; hash what it held at attach time
		}
		sum := sha256.Sum256(content)
		if r.Path != clean {
			bad("recorded-path-not-cleaned", fmt.Sprintf("recorded %q, cleaned path is %q", r.Path, clean), Assert{Kind: "exit_zero", Step: 1})
		}
		if r.Sha256 != hex.EncodeToString(sum[:]) {
			bad("sha256-is-not-the-file-hash", fmt.Sprintf("recorded %s, file hashes to %s", r.Sha256, hex.EncodeToString(sum[:])), Assert{Kind: "exit_zero", Step: 1})
		}
		// core.Observe is not used here, so the URL still carries the real root
		var raw struct {
			Results []struct {
				FileURL string `json:"file_url"`
			} `json:"results"`
		}
		json.Unmarshal(w.Run(core.R(w.Proj, "--json", "show", j.target)).Out, &raw)
		if len(raw.Results) > 0 {
			u, perr := url.Parse(raw.Results[0].FileURL)
			if perr != nil || u.Scheme != "file" || u.Host != "" || u.Path != filepath.Join(w.Proj, clean) {
				bad("file-url-wrong", fmt.Sprintf("file_url %q does not denote file://%s", raw.Results[0].FileURL, filepath.Join(w.Proj, clean)), Assert{Kind: "exit_zero", Step: 1})
			}
		}
		if r.Summary != strings.TrimSpace(j.summary) {
			bad("summary-altered", fmt.Sprintf("recorded %q for %q", r.Summary, j.summary), Assert{Kind: "exit_zero", Step: 1})
		}
		if strings.TrimSpace(j.summary) == "" || strings.ContainsAny(strings.TrimSpace(j.summary), "\n\r") {
			bad("bad-summary-accepted", fmt.Sprintf("%q", j.summary), Assert{Kind: "exit_zero", Step: 1})
		}
		had := 0
		if j.target == rich.ByState["done"] {
			had = 1 // the fixture's done task already carries one result
		}
		if len(sh.Results) != had+1 {
			bad("result-count", fmt.Sprintf("%d results after one attach (had %d)", len(sh.Results), had), Assert{Kind: "exit_zero", Step: 1})
		}
		if i%400 == 0 {
			samples.add(map[string]interface{}{"path": j.path, "cleaned": clean, "accepted": true})
		}
	})

	// ---- history: results accumulate newest first and survive every later command and compaction ----
	type hist struct {
		obs  core.Obs
		want []string // expected "summary|path|sha" newest first
	}
	target := rich.ByState["todo"]
	other := rich.ByState["blocked"]
	depth := 4
	if env.Thorough() {
		depth = 5
	}
	var histStates int64
	b := &BFS{Env: env, Roots: []core.Store{tree}, MaxDepth: depth, MaxStates: 300000}
	b.KeyFn = func(w *core.Worker, st core.Store) (string, interface{}) {
		k, _ := canonLogKey(w, st)
		return k, nil
	}
	b.Ops = func(n *Node) []core.Req {
		j := func(id string, m map[string]string, extra ...string) core.Req {
			return core.R("", append(append([]string{"--json"}, extra...), "set", id)...).In(jsonStr(m))
		}
		return []core.Req{
			j(target, map[string]string{"result_path": "a", "result_summary": "first kind"}),
			j(target, map[string]string{"result_path": "docs/a", "result_summary": "second kind"}),
			j(target, map[string]string{"result_path": "a", "result_summary": "with state", "state": "done"}),
			j(target, map[string]string{"state": "todo"}), j(target, map[string]string{"state": "done"}),
			j(target, map[string]string{"title": "renamed"}), j(target, map[string]string{"epic": rich.E2}),
			j(target, map[string]string{"claim": "ag"}),
			j(other, map[string]string{"result_path": "日本", "result_summary": "on another task"}),
			core.R("", "--json", "compact"), core.R("", "--json", "prune", "--yes"), core.R("", "--json", "claim", "--agent", "z"),
		}
	}
	expected := func(n *Node) []string { // replay the path against the model
		var want []string
		for _, r := range n.Path {
			if r.Stdin == nil || !strings.Contains(strings.Join(r.Args, " "), "set "+target) {
				continue
			}
			var m map[string]string
			json.Unmarshal(*r.Stdin, &m)
			if p, ok := m["result_path"]; ok {
				want = append([]string{m["result_summary"] + "|" + p}, want...)
			}
		}
		return want
	}
	b.OnTransition = func(w *core.Worker, n *Node, req core.Req, res core.Res, after core.Store) {
		if res.Exit != 0 && strings.Contains(strings.Join(req.Args, " "), "set "+target) && req.Stdin != nil && strings.Contains(string(*req.Stdin), "result_path") {
			// a rejected attach (e.g. illegal transition in the same request, or pruned target) must not count: mark by failing path
		}
	}
	b.Expand = func(n *Node, req core.Req, res core.Res, after core.Store) bool { return res.Exit == 0 }
	b.OnState = func(w *core.Worker, n *Node) {
		atomic.AddInt64(&histStates, 1)
		want := expected(n)
		r := w.Run(core.R(w.Proj, "--json", "show", target))
		if r.Exit != 0 {
			return // target pruned (done + prune): nothing to show
		}
		sh, err := core.ParseShow(r.Out)
		if err != nil {
			return
		}
		var got []string
		for _, x := range sh.Results {
			got = append(got, x.Summary+"|"+x.Path)
		}
		// requests that combine a result with a rejected field keep the result (K2) - only successful requests are on the path
		if strings.Join(got, ";") != strings.Join(want, ";") {
			report(env, "C20 kind=results-list-wrong", fmt.Sprintf("after %v the task shows results %v, expected (newest first) %v", n.Shell(), got, want),
				mkTrace(tree, "results dropped, duplicated or reordered", n.Path, Assert{Kind: "exit_zero", Step: len(n.Path)}))
		}
		for k, x := range sh.Results {
			content, _ := os.ReadFile(filepath.Join(w.Proj, x.Path))
			sum := sha256.Sum256(content)
			if x.Sha256 != hex.EncodeToString(sum[:]) {
				report(env, "C20 kind=evidence-altered-later", fmt.Sprintf("result %d of %v has sha %s", k, n.Shell(), x.Sha256), mkTrace(tree, "evidence altered", n.Path))
			}
		}
	}
	b.Run()
	validated := conf.run(env)
	env.Finish("model_checking", map[string]interface{}{
		"states": int64(len(jobs)) + histStates, "transitions": evals + b.Transitions, "traces_validated_against_impl": validated, "samples": samples.list,
		"exhaustive": env.TimeLeft() && (b.CapHit == "" || b.CapHit == "max_depth"), "attach_requests": evals, "accepted": accepted, "path_strings": len(paths),
		"history_states": histStates, "history_depth": b.DepthDone, "outcome_classes": classes.snapshot(), "distinct_outcome_classes": classes.len(),
		"unconfirmed_candidates": unconfirmed.Load(),
		"bound":                  "every path of <=3 components (thorough: + 4 components over a reduced alphabet) over {a, docs, .., ., .ergo, .ergo2, ..x, empty, unicode, symlink to file/dir/outside/dangling//dev/null/.ergo log, missing, plans.jsonl, empty dir}, each with/without leading and trailing slash, against a fixed project tree; x targets {task in 3 states, epic, pruned, unknown} and 9 summaries and 3 input modes on 8 paths; then every history of depth <=4 (5) of later commands (further results, state/title/epic/claim changes, results on another task, claim, prune, compact)",
	}, []string{"lexical confinement is judged on filepath.Clean of the input; 'existing regular file' follows symlinks (os.Stat)", "over-rejection is not a violation; accepted cases are counted so vacuity is visible", "FIFOs are not in the tree: reading one blocks the command (it would be the same non-regular-file class as the /dev/null symlink)"})
}

func pathClass(raw, clean string) string {
	switch {
	case filepath.IsAbs(clean):
		return "absolute"
	case clean == ".." || strings.HasPrefix(clean, "../"):
		return "dotdot-outside"
	case clean == ".ergo" || strings.HasPrefix(clean, ".ergo/"):
		return "inside-.ergo"
	case raw == "":
		return "empty"
	}
	return "other"
}
