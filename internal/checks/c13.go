package checks

import (
	"bytes"
	"fmt"
	"os"
	"path/filepath"
	"strings"
	"sync"
	"sync/atomic"
	"time"
	"verif/internal/crash"

	"verif/internal/core"
	"verif/internal/sched"
)

func init() {
	Registry["C13"] = runC13
	schedJudges["C13"] = func(env *core.Env, sc sched.Scenario) func(*core.Worker, *sched.Exec) (string, string) {
		return c13Judge(env, sc, 0)
	}
}

// c13Judge: process `reader` must exit 0 and print exactly what the same command prints on some version
// of the store that existed between its invocation and its exit.
func c13Judge(env *core.Env, sc sched.Scenario, reader int) func(w *core.Worker, ex *sched.Exec) (string, string) {
	var mu sync.Mutex
	cache := map[string]string{} // store key -> rendering
	render := func(w *core.Worker, st core.Store) string {
		k := st.Key()
		mu.Lock()
		if r, ok := cache[k]; ok {
			mu.Unlock()
			return r
		}
		mu.Unlock()
		st.Materialize(w.Proj)
		req := sc.Procs[reader]
		req.Cwd = w.Proj
		res := w.Run(req)
		r := fmt.Sprintf("exit=%d\n%s", res.Exit, res.Out)
		mu.Lock()
		cache[k] = r
		mu.Unlock()
		return r
	}
	name := strings.Join(sc.Procs[reader].Args, " ")
	return func(w *core.Worker, ex *sched.Exec) (string, string) {
		if ex.Blocked != "" {
			return "C13 kind=stalled", ex.Blocked
		}
		res := ex.Results[reader]
		writers := strings.TrimPrefix(sc.Name, "reader||")
		if res.Exit != 0 {
			return "C13 kind=reader-failed reader=" + name + " writer=" + writerFamily(writers), fmt.Sprintf("reader exits %d: %s", res.Exit, clipS(string(res.Err), 300))
		}
		lo, hi := ex.StartAt[reader], ex.ExitAt[reader]+1
		if lo < 0 {
			lo = 0
		}
		if hi >= len(ex.Versions) || hi < lo {
			hi = len(ex.Versions) - 1
		}
		got := fmt.Sprintf("exit=%d\n%s", res.Exit, res.Out)
		seen := map[string]bool{}
		for v := lo; v <= hi; v++ {
			st := ex.Versions[v]
			delete(st, "s")
			if seen[st.Key()] {
				continue
			}
			if len(st.Log()) == 0 && len(ex.Versions[0].Log()) > 0 {
				continue // a moment without a log is not "the state after some whole number of the recorded events"
			}
			seen[st.Key()] = true
			if render(w, st) == got {
				return "", ""
			}
		}
		return "C13 kind=reader-saw-a-state-the-store-never-had reader=" + name + " writer=" + writerFamily(writers),
			fmt.Sprintf("reader printed %s, which matches none of the %d store versions that existed during its lifetime (decisions %d..%d)", clipS(string(res.Out), 300), len(seen), lo, hi)
	}
}

func writerFamily(s string) string {
	if i := strings.Index(s, "/"); i >= 0 {
		s = s[:i]
	}
	return s
}

func runC13(env *core.Env) {
	f := buildConcFix(env)
	alpha := c02Alphabet()
	alpha = append(alpha, c02Cmd{"set{title,5KB-body,state}", true, func(f *concFix, k int) core.Req {
		return core.R("", "--json", "set", f.T2).In(jsonStr(map[string]string{"title": "T2", "body": strings.Repeat("0123456789", 520), "state": "done"}))
	}})
	type rd struct {
		name  string
		req   core.Req
		store core.Store
		sname string
	}
	readers := []rd{
		{"list--all", core.R("", "--json", "list", "--all"), f.SA, "S_A"},
		{"show-T1", core.R("", "--json", "show", f.T1), f.SA, "S_A"},
	}
	if env.Thorough() {
		readers = append(readers, rd{"list--epics", core.R("", "--json", "list", "--epics"), f.SA, "S_A"}, rd{"list--ready", core.R("", "--json", "list", "--ready"), f.SA, "S_A"})
	}
	st := newSchedStats()
	var jobs []schedJob
	add := func(name string, store core.Store, bound int, procs ...core.Req) {
		sc := sched.Scenario{Name: name, Store: store, Procs: procs}
		judge := c13Judge(env, sc, 0)
		jobs = append(jobs, schedJob{Sc: sc, Bound: bound, Snapshots: true, Judge: func(w *core.Worker, ex *sched.Exec) (string, string) {
			sig, d := judge(w, ex)
			st.Outcomes.inc(fmt.Sprintf("%s reader-exit=%d out=%d bytes", name, ex.Results[0].Exit, len(ex.Results[0].Out)))
			if ex.Preempts == 2 {
				st.Samples.add(map[string]interface{}{"scenario": name, "schedule": ex.Schedule()})
			}
			return sig, d
		}})
	}
	bound := 2
	if env.Thorough() {
		bound = 3
	}
	for _, r := range readers {
		for _, wcmd := range alpha {
			add(fmt.Sprintf("reader||%s/%s/%s", wcmd.Name, r.name, r.sname), r.store, bound, r.req, wcmd.Mk(f, 1))
		}
	}
	// the human (text) views as readers - they are built by other code paths than the JSON ones - against the writers
	// that change what they show: claim, set state, new task, prune, compact, plan
	for _, r := range []rd{
		{"list--epic-E1-text", core.R("", "list", "--epic", f.E1).In(""), f.SA, "S_A"},
		{"list-text", core.R("", "list", "--all").In(""), f.SA, "S_A"},
		{"show-E1-text", core.R("", "show", f.E1).In(""), f.SA, "S_A"},
	} {
		for _, wr := range []struct {
			name string
			req  core.Req
		}{
			{"claim--epic-E1", claimReq("w1", "--epic", f.E1)},
			{"set-T3{state}", core.R("", "--json", "set", f.T3).In(`{"state":"blocked"}`)},
			{"new-task-in-E1", core.R("", "--json", "new", "task").In(jsonStr(map[string]string{"title": "late child", "epic": f.E1}))},
			{"sequence-T1-T3", core.R("", "--json", "sequence", f.T1, f.T3)},
			{"prune", core.R("", "--json", "prune", "--yes")},
			{"compact", core.R("", "--json", "compact")},
		} {
			add(fmt.Sprintf("reader||%s/%s/%s", wr.name, r.name, r.sname), r.store, bound, r.req, wr.req)
		}
	}
	// one append larger than the reader's scan buffer (64 KiB) landing between the reader's size probe and its scan
	{
		bigBody := strings.Repeat("0123456789abcdef", 100*1024/16)
		add("reader||set-T3{body-100KB,state}/list--all/S_A", f.SA, bound, core.R("", "--json", "list", "--all"), core.R("", "--json", "set", f.T3).In(jsonStr(map[string]string{"body": bigBody, "state": "blocked"})))
		add("reader||new-task{body-100KB}/show-T1/S_A", f.SA, bound, core.R("", "--json", "show", f.T1), core.R("", "--json", "new", "task").In(jsonStr(map[string]string{"title": "big late", "body": bigBody})))
		add("reader||new-task{body-100KB}/list-text/S_A", f.SA, bound, core.R("", "list", "--all").In(""), core.R("", "--json", "new", "task").In(jsonStr(map[string]string{"title": "big late", "body": bigBody})))
	}
	// big log: the reader's scan is several read(2)s; writers that append, rewrite, or both
	bigWriters := []c02Cmd{alpha[0], alpha[6], alpha[12], alpha[14], alpha[len(alpha)-1]}
	for _, wcmd := range bigWriters {
		req := wcmd.Mk(f, 1)
		if strings.Contains(wcmd.Name, "5KB") { // T2 does not exist in S_big; target the first big task instead
			continue
		}
		add(fmt.Sprintf("reader||%s/list--all/S_big", wcmd.Name), f.SBig, bound, core.R("", "--json", "list", "--all"), req)
	}
	// a torn tail: the next appender repairs it by rewriting the log; compact and plan rewrite it too
	torn := tornVariants(f.SA)[0]
	for _, wi := range []int{0, 3, 6, 12, 14} { // new task, set{state}, claim, plan, compact
		add(fmt.Sprintf("reader||%s/list--all/S_A-torn-tail", alpha[wi].Name), torn, bound, core.R("", "--json", "list", "--all"), alpha[wi].Mk(f, 1))
		add(fmt.Sprintf("reader||%s/show-T1/S_A-torn-tail", alpha[wi].Name), torn, bound, core.R("", "--json", "show", f.T1), alpha[wi].Mk(f, 1))
	}
	// a store still under the legacy file name: the reader resolves the name, then opens it - against the two rewriters
	leg := legacyNamed(f.SA)
	add("reader||compact/list--all/S_A-legacy-file", leg, bound, core.R("", "--json", "list", "--all"), alpha[14].Mk(f, 1))
	add("reader||plan/list--all/S_A-legacy-file", leg, bound, core.R("", "--json", "list", "--all"), alpha[12].Mk(f, 1))
	add("reader||compact/show-T1/S_A-legacy-file", leg, bound, core.R("", "--json", "show", f.T1), alpha[14].Mk(f, 1))
	add("reader||new-task||claim/list--all/S_A", f.SA, 2, core.R("", "--json", "list", "--all"), alpha[0].Mk(f, 1), claimReq("a2"))
	add("reader||compact||new-task/list--all/S_A", f.SA, 2, core.R("", "--json", "list", "--all"), alpha[14].Mk(f, 1), alpha[0].Mk(f, 2))
	// weaker assumption about the kernel, checked without a scheduler: if a writer's single write(2) became visible to a
	// reader piecewise, the reader would see the old log plus a prefix of the appended batch. For every writer, every
	// prefix ending at a line boundary of its batch and a few cuts inside a line: every reader must still answer (exit 0).
	// (What it shows then is a partly applied command - that the write is indivisible is the stated assumption of the
	// scheduled part; here only "readers never fail" is asserted.)
	st.PerScenario["partial-visibility-phase"] = c13PartialVisibility(env, f, alpha)
	exploreMany(env, st, "C13", jobs, 4)
	finishSched(env, st, "a lock-free reader (list --json --all, show --json; the text views list --epic, list --all, show <epic> against 6 writers that change what they show; thorough: also --epics/--ready) against every writer of the C02 alphabet plus a >4 KiB multi-event append and single appends of 100 KB (larger than the scan buffer), on a small and a 140 KB store (multi-read scans) and on a store under the legacy file name, plus reader against two writers; every interleaving of the reader's steps (path stat, open, tail probe, each read chunk) with the writer's steps up to the preemption bound; oracle: the reader exits 0 and its output equals the same command's output on one of the store versions that existed between its invocation and its exit (snapshots after every scheduler step)")
}

func c13PartialVisibility(env *core.Env, f *concFix, alpha []c02Cmd) map[string]interface{} {
	w0 := env.W0()
	// a store in which prune takes an epic together with its children
	fx := FixFrom(env, w0, f.SA, 300)
	fx.Set(f.T3, map[string]interface{}{"state": "done"})
	finished := fx.Store()
	type job struct {
		name  string
		store core.Store
		log   []byte
		full  []byte // the log after the complete write
	}
	var jobs []job
	for _, pre := range []struct {
		name string
		st   core.Store
	}{{"S_A", f.SA}, {"S_A-with-E1-finished", finished}} {
		for _, wcmd := range alpha {
			pre.st.Materialize(w0.Proj)
			r := wcmd.Mk(f, 1)
			r.Cwd = w0.Proj
			r.RandBase = 700
			if res := w0.Run(r); res.Exit != 0 {
				continue
			}
			after, _ := core.Snapshot(w0.Proj)
			old, neu := pre.st.Log(), after.Log()
			if !bytes.HasPrefix(neu, old) || len(neu) == len(old) {
				continue // a rewrite (rename is atomic) or nothing written
			}
			batch := neu[len(old):]
			cuts := map[int]bool{1: true, len(batch) / 2: true, len(batch) - 1: true}
			for i, b := range batch {
				if b == '\n' && i+1 < len(batch) {
					cuts[i] = true
					cuts[i+1] = true
				}
			}
			for c := range cuts {
				if c > 0 && c < len(batch) {
					jobs = append(jobs, job{fmt.Sprintf("%s/%s first %d of %d bytes", pre.name, wcmd.Name, c, len(batch)), pre.st, append(append([]byte{}, old...), batch[:c]...), neu})
				}
			}
		}
	}
	readers := []core.Req{core.R("", "--json", "list", "--all"), core.R("", "--json", "list", "--ready"), core.R("", "--json", "list", "--epics"), core.R("", "--json", "show", f.T1), core.R("", "--json", "show", f.E1),
		core.R("", "list", "--all").In(""), core.R("", "list").In(""), core.R("", "list", "--ready").In(""), core.R("", "list", "--epic", f.E1).In(""), core.R("", "show", f.E1).In("")}
	var reads int64
	env.Parallel(len(jobs), func(w *core.Worker, i int) {
		j := jobs[i]
		st := j.store.WithLog(j.log)
		st.Materialize(w.Proj)
		for _, rd := range readers {
			req := rd
			req.Cwd = w.Proj
			res := w.Run(req)
			atomic.AddInt64(&reads, 1)
			if res.Exit != 0 || res.Panic || res.Timeout {
				if e := string(res.Err); res.Exit == 1 && !res.Panic && !res.Timeout && (strings.Contains(e, "unknown") || strings.Contains(e, "pruned") || strings.Contains(e, "no such epic")) {
					continue // show / list --epic of an item that the visible prefix has already pruned: a clean refusal, not a failed read
				}
				report(env, "C13 kind=reader-fails-on-a-partly-visible-write reader="+strings.Join(rd.Args, "_"), j.name+": `"+rd.Shell()+"` -> "+res.String(),
					mkTrace(st, j.name, []core.Req{rd}, Assert{Kind: "exit_nonzero", Step: 1}))
			}
		}
	})
	// the same with the rest of the write arriving while the reader is at work: the reader's tail probe (its fstat) is held
	// back by 2.5 s (strace delay injection, production binary) and the harness completes the line 1 s after the
	// reader started. Whichever of the two orders the reader's code uses (probe before or after its scan), and whichever
	// way the timing falls on a loaded machine, a correct reader answers; one that combines "last line unparsable" from
	// before with "file ends in a newline" from after reports a corrupt log.
	var completed int64
	{
		var cutJobs []job
		for _, j := range jobs {
			if n := len(j.log); n > 0 && j.log[n-1] != '\n' && strings.HasPrefix(j.name, "S_A/") && len(cutJobs) < 6 {
				cutJobs = append(cutJobs, j)
			}
		}
		env.Parallel(len(cutJobs), func(w *core.Worker, i int) {
			j := cutJobs[i]
			root, scratch := crashWorkdir(w)
			full := j.full
			if len(full) <= len(j.log) || !bytes.HasPrefix(full, j.log) {
				return
			}
			rest := full[len(j.log):]
			if nl := bytes.IndexByte(rest, '\n'); nl >= 0 {
				rest = rest[:nl+1]
			}
			for _, rd := range []core.Req{core.R("", "--json", "list", "--all"), core.R("", "list", "--all").In("")} {
				st := j.store.WithLog(j.log)
				st.Materialize(root)
				done := make(chan struct{})
				go func() {
					time.Sleep(1000 * time.Millisecond)
					if f, err := os.OpenFile(filepath.Join(root, st.LogName()), os.O_WRONLY|os.O_APPEND, 0); err == nil {
						f.Write(rest)
						f.Close()
					}
					close(done)
				}()
				t, err := crash.Run(env.Prod, root, rd, "fstat:delay_enter=2500000", scratch)
				<-done
				atomic.AddInt64(&completed, 1)
				if err != nil {
					continue
				}
				if t.Exit != 0 {
					sig := "C13 kind=reader-fails-when-a-write-completes-under-it reader=" + strings.Join(rd.Args, "_")
					if !env.ViolationSeen(sig) {
						env.Violation(sig, fmt.Sprintf("%s: the log ends in the first part of an event; `%s` starts, the rest of the line arrives 1 s later (the reader's tail probe is delayed by 2.5 s): exit %d, %s", j.name, rd.Shell(), t.Exit, clipS(string(t.Err), 200)),
							Trace{Kind: "trace", Store: st, Note: "needs the timing described in the detail (strace -e inject=fstat:delay_enter=2500000 on the reader, the rest of the line appended 1 s after its start)", Steps: []core.Req{rd}, Shell: []string{rd.Shell()}})
					}
				}
			}
		})
	}
	return map[string]interface{}{"partly_visible_logs": len(jobs), "reads": reads, "reads_with_the_line_completed_underneath": completed,
		"rule": "old log + every line-boundary prefix (and 3 cuts inside a line) of every appending writer's batch, on S_A and on a store whose prune takes an epic with its child; 10 readers (5 JSON, 5 text) must exit 0"}
}
