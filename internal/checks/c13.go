package checks

import (
	"fmt"
	"strings"
	"sync"

	"verif/internal/core"
	"verif/internal/sched"
)

func init() {
	Registry["C13"] = runC13
	schedJudges["C13"] = func(env *core.Env, sc sched.Scenario) func(*core.Worker, *sched.Exec) (string, string) {
		return c13Judge(env, sc, 0)
	}
}

// c13Judge: process `reader` must exit 0 and print exactly what the same command prints on some version
// of the store that existed between its invocation and its exit.
func c13Judge(env *core.Env, sc sched.Scenario, reader int) func(w *core.Worker, ex *sched.Exec) (string, string) {
	var mu sync.Mutex
	cache := map[string]string{} // store key -> rendering
	render := func(w *core.Worker, st core.Store) string {
		k := st.Key()
		mu.Lock()
		if r, ok := cache[k]; ok {
			mu.Unlock()
			return r
		}
		mu.Unlock()
		st.Materialize(w.Proj)
		req := sc.Procs[reader]
		req.Cwd = w.Proj
		res := w.Run(req)
		r := fmt.Sprintf("exit=%d\n%s", res.Exit, res.Out)
		mu.Lock()
		cache[k] = r
		mu.Unlock()
		return r
	}
	name := strings.Join(sc.Procs[reader].Args, " ")
	return func(w *core.Worker, ex *sched.Exec) (string, string) {
		if ex.Blocked != "" {
			return "C13 kind=stalled", ex.Blocked
		}
		res := ex.Results[reader]
		writers := strings.TrimPrefix(sc.Name, "reader||")
		if res.Exit != 0 {
			return "C13 kind=reader-failed reader=" + name + " writer=" + writerFamily(writers), fmt.Sprintf("reader exits %d: %s", res.Exit, clipS(string(res.Err), 300))
		}
		lo, hi := ex.StartAt[reader], ex.ExitAt[reader]+1
		if lo < 0 {
			lo = 0
		}
		if hi >= len(ex.Versions) || hi < lo {
			hi = len(ex.Versions) - 1
		}
		got := fmt.Sprintf("exit=%d\n%s", res.Exit, res.Out)
		seen := map[string]bool{}
		for v := lo; v <= hi; v++ {
			st := ex.Versions[v]
			delete(st, "s")
			if seen[st.Key()] {
				continue
			}
			if len(st.Log()) == 0 && len(ex.Versions[0].Log()) > 0 {
				continue // a moment without a log is not "the state after some whole number of the recorded events"
			}
			seen[st.Key()] = true
			if render(w, st) == got {
				return "", ""
			}
		}
		return "C13 kind=reader-saw-a-state-the-store-never-had reader=" + name + " writer=" + writerFamily(writers),
			fmt.Sprintf("reader printed %s, which matches none of the %d store versions that existed during its lifetime (decisions %d..%d)", clipS(string(res.Out), 300), len(seen), lo, hi)
	}
}

func writerFamily(s string) string {
	if i := strings.Index(s, "/"); i >= 0 {
		s = s[:i]
	}
	return s
}

func runC13(env *core.Env) {
	f := buildConcFix(env)
	alpha := c02Alphabet()
	alpha = append(alpha, c02Cmd{"set{title,5KB-body,state}", true, func(f *concFix, k int) core.Req {
		return core.R("", "--json", "set", f.T2).In(jsonStr(map[string]string{"title": "T2", "body": strings.Repeat("0123456789", 520), "state": "done"}))
	}})
	type rd struct {
		name  string
		req   core.Req
		store core.Store
		sname string
	}
	readers := []rd{
		{"list--all", core.R("", "--json", "list", "--all"), f.SA, "S_A"},
		{"show-T1", core.R("", "--json", "show", f.T1), f.SA, "S_A"},
	}
	if env.Thorough() {
		readers = append(readers, rd{"list--epics", core.R("", "--json", "list", "--epics"), f.SA, "S_A"}, rd{"list--ready", core.R("", "--json", "list", "--ready"), f.SA, "S_A"})
	}
	st := newSchedStats()
	var jobs []schedJob
	add := func(name string, store core.Store, bound int, procs ...core.Req) {
		sc := sched.Scenario{Name: name, Store: store, Procs: procs}
		judge := c13Judge(env, sc, 0)
		jobs = append(jobs, schedJob{Sc: sc, Bound: bound, Snapshots: true, Judge: func(w *core.Worker, ex *sched.Exec) (string, string) {
			sig, d := judge(w, ex)
			st.Outcomes.inc(fmt.Sprintf("%s reader-exit=%d out=%d bytes", name, ex.Results[0].Exit, len(ex.Results[0].Out)))
			if ex.Preempts == 2 {
				st.Samples.add(map[string]interface{}{"scenario": name, "schedule": ex.Schedule()})
			}
			return sig, d
		}})
	}
	bound := 2
	if env.Thorough() {
		bound = 3
	}
	for _, r := range readers {
		for _, wcmd := range alpha {
			add(fmt.Sprintf("reader||%s/%s/%s", wcmd.Name, r.name, r.sname), r.store, bound, r.req, wcmd.Mk(f, 1))
		}
	}
	// the human (text) views as readers - they are built by other code paths than the JSON ones - against the writers
	// that change what they show: claim, set state, new task, prune, compact, plan
	for _, r := range []rd{
		{"list--epic-E1-text", core.R("", "list", "--epic", f.E1).In(""), f.SA, "S_A"},
		{"list-text", core.R("", "list", "--all").In(""), f.SA, "S_A"},
		{"show-E1-text", core.R("", "show", f.E1).In(""), f.SA, "S_A"},
	} {
		for _, wr := range []struct {
			name string
			req  core.Req
		}{
			{"claim--epic-E1", claimReq("w1", "--epic", f.E1)},
			{"set-T3{state}", core.R("", "--json", "set", f.T3).In(`{"state":"blocked"}`)},
			{"new-task-in-E1", core.R("", "--json", "new", "task").In(jsonStr(map[string]string{"title": "late child", "epic": f.E1}))},
			{"sequence-T1-T3", core.R("", "--json", "sequence", f.T1, f.T3)},
			{"prune", core.R("", "--json", "prune", "--yes")},
			{"compact", core.R("", "--json", "compact")},
		} {
			add(fmt.Sprintf("reader||%s/%s/%s", wr.name, r.name, r.sname), r.store, bound, r.req, wr.req)
		}
	}
	// big log: the reader's scan is several read(2)s; writers that append, rewrite, or both
	bigWriters := []c02Cmd{alpha[0], alpha[6], alpha[12], alpha[14], alpha[len(alpha)-1]}
	for _, wcmd := range bigWriters {
		req := wcmd.Mk(f, 1)
		if strings.Contains(wcmd.Name, "5KB") { // T2 does not exist in S_big; target the first big task instead
			continue
		}
		add(fmt.Sprintf("reader||%s/list--all/S_big", wcmd.Name), f.SBig, bound, core.R("", "--json", "list", "--all"), req)
	}
	// a torn tail: the next appender repairs it by rewriting the log; compact and plan rewrite it too
	torn := tornVariants(f.SA)[0]
	for _, wi := range []int{0, 3, 6, 12, 14} { // new task, set{state}, claim, plan, compact
		add(fmt.Sprintf("reader||%s/list--all/S_A-torn-tail", alpha[wi].Name), torn, bound, core.R("", "--json", "list", "--all"), alpha[wi].Mk(f, 1))
		add(fmt.Sprintf("reader||%s/show-T1/S_A-torn-tail", alpha[wi].Name), torn, bound, core.R("", "--json", "show", f.T1), alpha[wi].Mk(f, 1))
	}
	add("reader||new-task||claim/list--all/S_A", f.SA, 2, core.R("", "--json", "list", "--all"), alpha[0].Mk(f, 1), claimReq("a2"))
	add("reader||compact||new-task/list--all/S_A", f.SA, 2, core.R("", "--json", "list", "--all"), alpha[14].Mk(f, 1), alpha[0].Mk(f, 2))
	exploreMany(env, st, "C13", jobs, 4)
	finishSched(env, st, "a lock-free reader (list --json --all, show --json; the text views list --epic, list --all, show <epic> against 6 writers that change what they show; thorough: also --epics/--ready) against every writer of the C02 alphabet plus a >4 KiB multi-event append, on a small and a 140 KB store (multi-read scans), plus reader against two writers; every interleaving of the reader's steps (path stat, open, tail probe, each read chunk) with the writer's steps up to the preemption bound; oracle: the reader exits 0 and its output equals the same command's output on one of the store versions that existed between its invocation and its exit (snapshots after every scheduler step)")
}
