package checks

import (
	"fmt"
	"sort"
	"strings"
	"sync/atomic"
	"time"

	"verif/internal/core"
)

func init() { Registry["C07"] = runC07 }

// depGraph is the depends-on relation read from show --json.
type depGraph struct {
	kind map[string]string // id -> task|epic
	deps map[string]map[string]bool
}

func graphOf(o core.Obs) depGraph {
	g := depGraph{kind: map[string]string{}, deps: map[string]map[string]bool{}}
	for _, it := range o.All {
		g.kind[it.ID] = "task"
	}
	for _, it := range o.Epics {
		g.kind[it.ID] = "epic"
	}
	for id, sh := range o.Shows {
		g.deps[id] = map[string]bool{}
		for _, d := range sh.Deps {
			g.deps[id][d] = true
		}
	}
	return g
}

func (g depGraph) reaches(from, to string, seen map[string]bool) bool {
	if from == to {
		return true
	}
	if seen[from] {
		return false
	}
	seen[from] = true
	for d := range g.deps[from] {
		if g.reaches(d, to, seen) {
			return true
		}
	}
	return false
}

func (g depGraph) edges() []string {
	var out []string
	for f, ds := range g.deps {
		for t := range ds {
			out = append(out, f+"->"+t)
		}
	}
	sort.Strings(out)
	return out
}

// checkDepInvariants: irreflexive, acyclic, same-kind, between listed ids; rdeps mirror deps exactly.
func checkDepInvariants(o core.Obs) string {
	g := graphOf(o)
	for id, sh := range o.Shows {
		for _, d := range sh.Deps {
			if d == id {
				return "self-edge on " + id
			}
			if _, ok := g.kind[d]; !ok {
				return fmt.Sprintf("%s depends on %s which is not a listed (live) item", id, d)
			}
			if g.kind[d] != g.kind[id] {
				return fmt.Sprintf("cross-kind edge %s(%s) -> %s(%s)", id, g.kind[id], d, g.kind[d])
			}
			if !contains(o.Shows[d].RDeps, id) {
				return fmt.Sprintf("%s depends on %s but %s.rdeps lacks %s", id, d, d, id)
			}
		}
		for _, r := range sh.RDeps {
			rs, ok := o.Shows[r]
			if !ok {
				return fmt.Sprintf("%s.rdeps lists %s which is not a listed (live) item", id, r)
			}
			if !contains(rs.Deps, id) {
				return fmt.Sprintf("%s.rdeps lists %s but %s.deps lacks %s", id, r, r, id)
			}
		}
	}
	for id := range g.deps {
		for d := range g.deps[id] {
			if g.reaches(d, id, map[string]bool{}) {
				return "cycle through " + id + " and " + d
			}
		}
	}
	return ""
}

func contains(xs []string, x string) bool {
	for _, y := range xs {
		if y == x {
			return true
		}
	}
	return false
}

func runC07(env *core.Env) {
	w0 := env.W0()
	fx := NewFix(env, w0)
	nTasks := 3
	var tasks []string
	e1, e2 := fx.NewEpic("E1"), fx.NewEpic("E2")
	for i := 0; i < nTasks; i++ {
		f := map[string]interface{}{"title": fmt.Sprintf("T%d", i)}
		if i == 0 {
			f["epic"] = e1 // keeps E1 alive across prune so epic edges stay explorable
		}
		tasks = append(tasks, fx.NewTask(f))
	}
	keep := fx.NewTask(map[string]interface{}{"title": "keep", "epic": e2})
	_ = keep
	root := fx.Store()
	e3 := fx.NewEpic("E3") // second root: the same store plus an epic without children, explored to depth 2
	root3 := fx.Store()
	root3Key := core.CanonLog(root3.Log())
	from3 := func(n *Node) bool { return core.CanonLog(rootOfNode(n).Log()) == root3Key }
	universe := append(append([]string{}, tasks...), e1, e2, "ZZZZZZ")

	type opMeta struct {
		kind string // link | rm | chain | other
		ids  []string
	}
	metaOf := func(r core.Req) opMeta {
		a := r.Args
		for len(a) > 0 && a[0] != "sequence" {
			a = a[1:]
		}
		if len(a) == 0 {
			return opMeta{kind: "other"}
		}
		a = a[1:]
		if len(a) > 0 && a[0] == "rm" {
			return opMeta{kind: "rm", ids: a[1:]}
		}
		if len(a) == 2 {
			return opMeta{kind: "link", ids: a}
		}
		return opMeta{kind: "chain", ids: a}
	}
	gen := func(n *Node) []core.Req {
		obs := n.Aux.(core.Obs)
		if obs.Fail != "" {
			return nil
		}
		ids := append([]string{}, universe...)
		if p := prunedIDs(n.Store.Log()); len(p) > 0 {
			ids = append(ids, p[0])
		}
		var out []core.Req
		for _, a := range ids {
			for _, b := range ids {
				out = append(out, core.R("", "--json", "sequence", a, b))
				out = append(out, core.R("", "--json", "sequence", "rm", a, b))
			}
		}
		for _, a := range tasks {
			for _, b := range tasks {
				for _, c := range tasks {
					out = append(out, core.R("", "--json", "sequence", a, b, c))
				}
			}
		}
		chains := [][]string{{e1, e2, e1}, {e2, e1, e2}, {e1, e2, "ZZZZZZ"}, {tasks[0], e1, tasks[0]}}
		if from3(n) {
			if n.Depth >= 2 {
				return nil
			}
			chains = append(chains, []string{e1, e3, e1}, []string{e3, e2, e3}, []string{e3, e1, e2, e3}, []string{e3, e1}, []string{e1, e3})
		}
		for _, ch := range chains {
			out = append(out, core.R("", append([]string{"--json", "sequence"}, ch...)...))
		}
		for _, t := range tasks {
			out = append(out, core.R("", "--json", "set", t).In(`{"state":"done"}`))
		}
		out = append(out, core.R("", "--json", "prune", "--yes"), core.R("", "--json", "compact"))
		return out
	}
	var checked, accepted, rejected int64
	classes := newCounter()
	samples := &sampleSet{max: 10}
	b := &BFS{Env: env, Roots: []core.Store{root, root3}, KeyFn: graphKey, Ops: gen, MaxStates: 100000}
	b.Conf = newConformer(150, 300)
	b.OnState = func(w *core.Worker, n *Node) {
		obs := n.Aux.(core.Obs)
		atomic.AddInt64(&checked, 1)
		if obs.Fail != "" {
			report(env, "C07 kind=store-unreadable", obs.Fail+" via "+fmt.Sprint(n.Shell()), mkTrace(rootOfNode(n), "reads fail", n.Path, Assert{Kind: "read_fails", Step: len(n.Path)}))
			return
		}
		if msg := checkDepInvariants(obs); msg != "" {
			report(env, "C07 kind=graph-invariant "+invClass(msg), msg+" via "+fmt.Sprint(n.Shell()), mkTrace(rootOfNode(n), msg, n.Path, Assert{Kind: "exit_zero", Step: len(n.Path)}))
		}
	}
	b.OnTransition = func(w *core.Worker, n *Node, req core.Req, res core.Res, after core.Store) {
		m := metaOf(req)
		if res.Panic || res.Timeout {
			report(env, "C07 kind=crash", req.Shell()+" "+res.String(), mkTrace(n.Store, "crash", []core.Req{req}, Assert{Kind: "exit_nonzero", Step: 1}))
			return
		}
		if m.kind == "other" {
			return
		}
		pre := n.Aux.(core.Obs)
		g := graphOf(pre)
		// model: apply the edges one at a time
		ok := true
		why := ""
		want := map[string]bool{}
		for _, e := range g.edges() {
			want[e] = true
		}
		for i := 0; i+1 < len(m.ids) && ok; i++ {
			a, bb := m.ids[i], m.ids[i+1] // bb depends on a
			ka, oka := g.kind[a]
			kb, okb := g.kind[bb]
			switch {
			case !oka || !okb:
				ok, why = false, "dead-endpoint"
			case a == bb:
				ok, why = false, "self"
			case ka != kb:
				ok, why = false, "cross-kind"
			case m.kind != "rm" && g.reaches(a, bb, map[string]bool{}):
				ok, why = false, "cycle"
			}
			if ok {
				if m.kind == "rm" {
					delete(want, bb+"->"+a)
					delete(g.deps[bb], a)
				} else {
					want[bb+"->"+a] = true
					if g.deps[bb] == nil {
						g.deps[bb] = map[string]bool{}
					}
					g.deps[bb][a] = true
				}
			}
		}
		if len(m.ids) < 2 || (m.kind == "rm" && len(m.ids) != 2) {
			ok, why = false, "usage"
		}
		class := fmt.Sprintf("%s model=%v(%s) exit0=%v", m.kind, ok, why, res.Exit == 0)
		classes.inc(class)
		steps := []core.Req{req}
		switch {
		case ok && res.Exit != 0:
			atomic.AddInt64(&rejected, 1)
			report(env, "C07 kind=valid-request-rejected op="+m.kind, req.Shell()+" -> "+res.String(), mkTrace(n.Store, "valid sequence request rejected", steps, Assert{Kind: "exit_nonzero", Step: 1}))
		case !ok && res.Exit == 0:
			atomic.AddInt64(&accepted, 1)
			report(env, fmt.Sprintf("C07 kind=invalid-request-accepted op=%s why=%s", m.kind, why), req.Shell()+" exits 0 (deps before: "+fmt.Sprint(graphOf(pre).edges())+")",
				mkTrace(n.Store, "request that breaks the graph rules accepted", steps, Assert{Kind: "exit_zero", Step: 1}))
		case ok:
			atomic.AddInt64(&accepted, 1)
			post := core.ObserveW(w, w.Proj)
			got := map[string]bool{}
			for _, e := range graphOf(post).edges() {
				got[e] = true
			}
			if !sameSet(got, want) {
				report(env, "C07 kind=wrong-edge-set op="+m.kind, fmt.Sprintf("%s: edges now %v, expected %v", req.Shell(), keys(got), keys(want)),
					mkTrace(n.Store, "edge set after the command is not exactly the requested change", steps, Assert{Kind: "exit_zero", Step: 1}))
			}
		default:
			atomic.AddInt64(&rejected, 1)
		}
		samples.add(map[string]interface{}{"edges_before": graphOf(pre).edges(), "cmd": req.Shell(), "exit": res.Exit, "model": class})
	}
	b.Run()
	validated := b.Conf.run(env)
	mergedCov := c07MergedLogs(env)
	schedCov := c07Concurrent(env, root, tasks)
	cov := map[string]interface{}{
		"states": b.States, "transitions": b.Transitions, "traces_validated_against_impl": validated,
		"samples": samples.list, "exhaustive": b.Exhaustive && schedExhaustive(schedCov), "cap_hit": b.CapHit, "bfs_depth": b.DepthDone,
		"states_checked": checked, "requests_accepted": accepted, "requests_rejected": rejected,
		"distinct_outcome_classes": classes.len(), "outcome_classes": classes.snapshot(), "unconfirmed_candidates": unconfirmed.Load(),
		"bound":      "3 tasks + 2 epics (+1 anchor task), every ordered pair over {tasks, epics, unknown, pruned} for sequence and sequence rm, every 3-chain over tasks, done/prune/compact; BFS to fixpoint on the canonical graph",
		"concurrent": schedCov, "merged_logs": mergedCov,
	}
	env.Finish("model_checking", cov, []string{"state key = canonical labelled graph", "concurrent part: see coverage.concurrent (preemption-bounded schedules of real processes)"})
}

func invClass(msg string) string {
	switch {
	case strings.Contains(msg, "self-edge"):
		return "self-edge"
	case strings.Contains(msg, "cross-kind"):
		return "cross-kind"
	case strings.Contains(msg, "cycle"):
		return "cycle"
	case strings.Contains(msg, "rdeps"):
		return "rdeps-mirror"
	case strings.Contains(msg, "not a listed"):
		return "dead-endpoint"
	}
	return "other"
}

// c07MergedLogs: two clones of one store - one finishes and prunes an item, the other (which has not seen that) adds
// edges from, to and around it - merged line-wise in every order that keeps each clone's own order. However the
// tombstone and the link events interleave, a reader must never be shown an edge with a pruned end, and deps/rdeps must
// mirror each other; compact must not change that. (Acyclicity is not asserted here: a union of two clones that each
// added one direction is outside what commands can prevent.)
func c07MergedLogs(env *core.Env) map[string]interface{} {
	type scen struct {
		name string
		base func(l *SynLog) (x, y, z string)
		a    func(l *SynLog, x, y, z string) // clone 1: finishes and prunes x
		b    func(l *SynLog, x, y, z string) // clone 2: edges
	}
	scens := []scen{
		{"tasks", func(l *SynLog) (string, string, string) {
			x, y, z := core.IDFor(9401), core.IDFor(9402), core.IDFor(9403)
			l.Create(SynItem{ID: x, Title: "X"})
			l.Create(SynItem{ID: y, Title: "Y"})
			l.Create(SynItem{ID: z, Title: "Z"})
			return x, y, z
		}, func(l *SynLog, x, y, z string) { l.State(x, "done"); l.Tombstone(x) },
			func(l *SynLog, x, y, z string) { l.Link(y, x); l.Link(z, y); l.Link(x, z) }},
		{"epics", func(l *SynLog) (string, string, string) {
			x, y, z := core.IDFor(9411), core.IDFor(9412), core.IDFor(9413)
			l.Create(SynItem{ID: x, Epic: true, Title: "EX"})
			l.Create(SynItem{ID: y, Epic: true, Title: "EY"})
			l.Create(SynItem{ID: z, Epic: true, Title: "EZ"})
			l.Create(SynItem{ID: core.IDFor(9414), Title: "child of EY", In: y})
			l.Create(SynItem{ID: core.IDFor(9415), Title: "child of EZ", In: z})
			return x, y, z
		}, func(l *SynLog, x, y, z string) { l.Tombstone(x) },
			func(l *SynLog, x, y, z string) { l.Link(y, x); l.Link(x, z); l.Link(z, y) }},
		{"tasks-unlink-after-prune", func(l *SynLog) (string, string, string) {
			x, y, z := core.IDFor(9421), core.IDFor(9422), core.IDFor(9423)
			l.Create(SynItem{ID: x, Title: "X"})
			l.Create(SynItem{ID: y, Title: "Y"})
			l.Create(SynItem{ID: z, Title: "Z"})
			l.Link(y, x)
			return x, y, z
		}, func(l *SynLog, x, y, z string) { l.State(x, "canceled"); l.Tombstone(x) },
			func(l *SynLog, x, y, z string) { l.Unlink(y, x); l.Link(y, x); l.Link(z, x) }},
	}
	type job struct {
		name string
		st   core.Store
		desc string
	}
	var jobs []job
	for _, sc := range scens {
		bl := newSynLog()
		x, y, z := sc.base(bl)
		al, cl := newSynLog(), newSynLog()
		al.t = bl.t.Add(time.Hour)
		cl.t = bl.t.Add(time.Hour + 700*time.Millisecond)
		sc.a(al, x, y, z)
		sc.b(cl, x, y, z)
		// all merges of al.lines and cl.lines that keep each side's order
		var rec func(i, j int, acc [][]byte, pick string)
		rec = func(i, j int, acc [][]byte, pick string) {
			if i == len(al.lines) && j == len(cl.lines) {
				var buf []byte
				buf = append(buf, bl.Bytes()...)
				for _, ln := range acc {
					buf = append(append(buf, ln...), '\n')
				}
				jobs = append(jobs, job{sc.name, core.Store{".ergo/plans.jsonl": buf, ".ergo/lock": nil}, sc.name + " merge order " + pick + " (1 = pruning clone, 2 = linking clone)"})
				return
			}
			if i < len(al.lines) {
				rec(i+1, j, append(append([][]byte{}, acc...), al.lines[i]), pick+"1")
			}
			if j < len(cl.lines) {
				rec(i, j+1, append(append([][]byte{}, acc...), cl.lines[j]), pick+"2")
			}
		}
		rec(0, 0, nil, "")
	}
	var checked int64
	env.Parallel(len(jobs), func(w *core.Worker, i int) {
		j := jobs[i]
		for round, steps := range [][]core.Req{nil, {core.R("", "--json", "compact")}, {core.R("", "--json", "new", "task").In(`{"title":"later"}`), core.R("", "--json", "compact")}} {
			j.st.Materialize(w.Proj)
			for _, r := range steps {
				r.Cwd = w.Proj
				r.RandBase = 900
				w.Run(r)
			}
			obs := core.ObserveW(w, w.Proj)
			atomic.AddInt64(&checked, 1)
			if obs.Fail != "" {
				report(env, "C07 kind=merged-log-unreadable scen="+j.name, j.desc+": "+obs.Fail, mkTrace(j.st, j.desc, steps, Assert{Kind: "read_fails", Step: len(steps)}))
				return
			}
			msg := checkDepInvariants(obs)
			if msg != "" && invClass(msg) != "cycle" {
				var lit []core.Req
				for _, r := range steps {
					r.RandBase = 900
					lit = append(lit, r)
				}
				report(env, fmt.Sprintf("C07 kind=merged-log-graph-invariant %s scen=%s round=%d", invClass(msg), j.name, round), j.desc+": "+msg,
					mkTrace(j.st, j.desc, lit, Assert{Kind: "dep_invariant_broken", Step: len(lit)}))
				return
			}
		}
	})
	return map[string]interface{}{"merged_logs": len(jobs), "observations_checked": checked,
		"rule": "3 scenarios (tasks, epics, unlink/relink around a prune) x every order-preserving merge of the pruning clone's events with the linking clone's events; each merged log read directly, after compact, and after new task + compact; asserted: no edge with a pruned or unknown end, no cross-kind edge, deps/rdeps mirror each other"}
}
