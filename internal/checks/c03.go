package checks

import (
	"bytes"
	"encoding/json"
	"fmt"
	"os"
	"sort"
	"strings"
	"sync"
	"sync/atomic"

	"verif/internal/core"
	"verif/internal/crash"
)

func init() {
	Registry["C03"] = runC03
	replayers["crash-chain"] = replayCrashChain
}

// replayCrashChain re-executes a recorded chain of (command, kill point, torn bytes) with the production
// binary and reports whether the store ends up unreadable or different from its own whole events.
func replayCrashChain(env *core.Env, raw json.RawMessage) bool {
	var r struct {
		Root  map[string][]byte `json:"root"`
		Chain []crashStep       `json:"chain"`
	}
	if err := json.Unmarshal(raw, &r); err != nil {
		env.HarnessError("bad crash-chain replay: %v", err)
	}
	w := env.W0()
	root, scratch := crashWorkdir(w)
	cur := core.Store(r.Root)
	for i, st := range r.Chain {
		cur.Materialize(root)
		if st.Target < 0 {
			q := st.Req
			q.Cwd = root
			res := w.Spawn(q)
			fmt.Printf("  step %d: %s -> %s\n", i+1, st.Req.Shell(), res)
			cur, _ = core.Snapshot(root)
			continue
		}
		ref, err := crash.Run(env.Prod, root, st.Req, "", scratch)
		if err != nil || st.Target >= len(ref.Calls) {
			fmt.Println("replay: the traced call sequence changed")
			return false
		}
		completed, _ := core.Snapshot(root)
		killed, ok := killAtRetry(env, root, scratch, cur, st.Req, ref, st.Target)
		if !ok {
			fmt.Println("replay: could not land the kill")
			return false
		}
		if st.Keep >= 0 {
			base, full := killed.Log(), completed.Log()
			if len(full) >= len(base)+st.Keep {
				killed = killed.WithLog(append(append([]byte{}, base...), full[len(base):len(base)+st.Keep]...))
			}
		}
		fmt.Printf("  step %d: %s killed on entry to %s (torn keep=%d)\n", i+1, st.Req.Shell(), ref.Calls[st.Target], st.Keep)
		cur = killed
	}
	cur.Materialize(root)
	obs := core.ObserveW(w, root)
	fmt.Printf("  final log:\n%s\n", cur.Log())
	if obs.Fail != "" {
		fmt.Println("  reads fail:", obs.Fail)
		return true
	}
	cleanOf(cur).Materialize(root)
	return core.ObserveW(w, root).Raw() != obs.Raw()
}

// cleanOf returns the store a reader effectively sees: whole events only (an unterminated but complete
// final event is kept, an unparsable fragment is dropped), every line newline-terminated.
func cleanOf(st core.Store) core.Store {
	evs, _ := core.ParseLog(st.Log())
	var b bytes.Buffer
	for _, e := range evs {
		b.WriteString(e.Raw)
		b.WriteByte('\n')
	}
	c := st.WithLog(b.Bytes())
	for k := range c {
		if strings.HasSuffix(k, ".tmp") {
			delete(c, k)
		}
	}
	return c
}

func tornTail(st core.Store) bool {
	log := st.Log()
	return len(log) > 0 && log[len(log)-1] != '\n'
}

type c03State struct {
	Store core.Store
	Path  []string // human description of how it was reached
	Depth int      // number of crashes on the path
	Arts  []crashStep
	Root  core.Store
	Cmds  []int // roots only: indices into the menu crashed at depth 1 (nil = all)
}

// crashStep is one element of a replayable crash chain.
type crashStep struct {
	Req    core.Req `json:"req"`
	Target int      `json:"kill_call"` // -1 = run to completion
	Keep   int      `json:"torn_keep"` // >=0: bytes of the last write kept
}

func c03Menu(f *concFix) []crashCmd {
	return []crashCmd{
		{"new-task", core.R("", "--json", "new", "task").In(`{"title":"after crash","body":"b"}`)},
		{"new-epic", core.R("", "--json", "new", "epic").In(`{"title":"epic after crash"}`)},
		{"set{state}", core.R("", "--json", "set", f.T1).In(`{"state":"blocked"}`)},
		{"set{title,claim}", core.R("", "--json", "set", f.T2).In(`{"title":"T2 renamed","claim":"ag"}`)},
		{"claim", claimReq("ag")},
		{"claim-id", core.R("", "--json", "claim", f.T3, "--agent", "ag3")},
		{"sequence", core.R("", "--json", "sequence", f.T2, f.T3)},
		{"sequence-rm", core.R("", "--json", "sequence", "rm", f.T1, f.T2)},
		{"prune", core.R("", "--json", "prune", "--yes")},
		{"plan", core.R("", "--json", "plan").In(`{"title":"P","tasks":[{"title":"pa"},{"title":"pb","after":["pa"]}]}`)},
		{"compact", core.R("", "--json", "compact")},
		{"new-task{claim}", core.R("", "--json", "new", "task").In(`{"title":"NC","claim":"creator"}`)},
		{"set{result,state}", core.R("", "--json", "set", f.T2).In(`{"result_path":"out.txt","result_summary":"did it","state":"done"}`)},
		{"init", core.R("", "--json", "init")},
		{"new-task-200KB", core.R("", "--json", "new", "task").In(jsonStr(map[string]string{"title": "big", "body": strings.Repeat("large body ", 18000)}))},
	}
}

// tornOffsetsOf: the byte offsets at which a write of data is cut. Quick: {1, 2, L/2, L-2, L-1} plus every line boundary
// of a multi-line batch and the bytes next to it (a batch cut exactly between two of its events is the cut that leaves
// whole events of a half-applied command behind); thorough: every offset of a write of up to 4 KiB; for larger writes the
// quick set plus 256 evenly spaced cuts and the bytes around the 4 KiB and 64 KiB marks (every offset of the 200 KB line
// would be 200 000 stores of 200 KB - the first thorough run that tried was killed for lack of memory).
func tornOffsetsOf(data []byte, thorough bool) []int {
	out := tornOffsets(len(data), thorough)
	if thorough && len(data) <= 4096 {
		return out
	}
	set := map[int]bool{}
	for _, t := range out {
		set[t] = true
	}
	for i, b := range data {
		if b == '\n' && i+1 < len(data) {
			for _, t := range []int{i, i + 1, i + 2} {
				if t >= 1 && t < len(data) {
					set[t] = true
				}
			}
		}
	}
	out = out[:0]
	for t := range set {
		out = append(out, t)
	}
	sort.Ints(out)
	return out
}

func tornOffsets(L int, thorough bool) []int {
	if L <= 1 {
		return nil
	}
	if thorough && L <= 4096 {
		var all []int
		for t := 1; t < L; t++ {
			all = append(all, t)
		}
		return all
	}
	set := map[int]bool{1: true, L / 2: true, L - 2: true, L - 1: true, 2: true}
	if thorough {
		// a write of more than 4 KiB (the 200 KB line): every offset would be 200 000 stores of 200 KB each; the cuts that
		// differ in kind are the ones near the ends, near the 4 KiB / 64 KiB marks and 256 evenly spaced ones
		for k := 1; k < 256; k++ {
			set[k*L/256] = true
		}
		for _, m := range []int{4096, 65536} {
			for d := -2; d <= 2; d++ {
				set[m+d] = true
			}
		}
	}
	var out []int
	for t := range set {
		if t >= 1 && t < L {
			out = append(out, t)
		}
	}
	sort.Ints(out)
	return out
}

func runC03(env *core.Env) {
	f := buildConcFix(env)
	menu := c03Menu(f)
	roots := []*c03State{{Store: f.SA, Path: []string{"S_A"}}, {Store: f.SDep, Path: []string{"S_dep"}}}
	{
		leg := f.SA.Clone()
		leg[".ergo/events.jsonl"] = leg[".ergo/plans.jsonl"]
		delete(leg, ".ergo/plans.jsonl")
		roots = append(roots, &c03State{Store: leg, Path: []string{"S_A-legacy-file"}})
	}
	{
		// the same log with CRLF line ends (a checkout with autocrlf, a log merged in an editor): ergo reads it, so a
		// crash on it must be survived like any other; reduced menu (append path, composite append, both rewrites)
		crlf := f.SA.WithLog(bytes.ReplaceAll(f.SA.Log(), []byte("\n"), []byte("\r\n")))
		roots = append(roots, &c03State{Store: crlf, Path: []string{"S_A-with-CRLF-line-ends"}, Cmds: []int{0, 3, 4, 9, 10}})
	}
	{
		// a store that holds no event yet (fresh init): the very first write is the one that is killed, so what is left
		// is a log consisting of nothing but a fragment; the commands that create something are crashed, all follow
		fresh := core.Store{".ergo/plans.jsonl": {}, ".ergo/lock": {}}
		roots = append(roots, &c03State{Store: fresh, Path: []string{"S_fresh-init"}, Cmds: []int{0, 1, 9, 11}})
	}
	// the write cut short by the kernel (disk full / file size limit) with the process still alive to react: whatever
	// it does then (error out, roll back), everything acknowledged before must still be there (cheap, so it runs first)
	shortCov := shortWritePhase(env, "C03", f.SA, []crashCmd{menu[0], menu[3], menu[4], menu[8]})
	{
		// an epic whose only child is finished: prune takes the child and the epic in one batch (reduced menu)
		fx := FixFrom(env, env.W0(), f.SA, 200)
		fx.Set(f.T3, map[string]interface{}{"state": "done"})
		roots = append(roots, &c03State{Store: fx.Store(), Path: []string{"S_A-with-E1-finished"}, Cmds: []int{8, 10, 4}})
	}
	var mu sync.Mutex
	seen := map[string]bool{}
	key := func(st core.Store) string {
		var other []string
		for k := range st {
			if strings.HasPrefix(k, ".ergo/") && k != st.LogName() && k != ".ergo/lock" {
				other = append(other, k+"="+core.CanonLog(st[k]))
			}
		}
		sort.Strings(other)
		crlf := ""
		if bytes.Contains(st.Log(), []byte("\r\n")) {
			crlf = "|crlf" // line-end style is not in the canonical rendering but is part of what a reader has to cope with
		}
		return core.CanonLog(st.Log()) + "|" + st.LogName() + "|" + strings.Join(other, ",") + crlf
	}
	var crashStates, tornStates, followUps, straceRuns, notLanded, statesChecked int64
	classes := newCounter()
	samples := &sampleSet{max: 8}

	violation := func(kind string, s *c03State, detail string) {
		sig := "C03 kind=" + kind
		if env.ViolationSeen(sig) {
			return
		}
		env.Violation(sig, fmt.Sprintf("history: %s\n%s", strings.Join(s.Path, " ; "), detail),
			map[string]interface{}{"kind": "crash-chain", "root": rootOf(s, roots[0].Store), "chain": s.Arts, "history": s.Path, "log_at_violation": string(s.Store.Log())})
	}

	// settle: the oracle for one state that a crash (or a later command) produced.
	//  (a) every read succeeds; (c) every menu command behaves exactly as on the clean equivalent of the
	//  state (whole events only), and the store is readable afterwards.
	settle := func(w *core.Worker, s *c03State) {
		atomic.AddInt64(&statesChecked, 1)
		s.Store.Materialize(w.Proj)
		obs := core.ObserveW(w, w.Proj)
		if obs.Fail != "" {
			violation("reads-fail-after-crash", s, "after the crash a read fails: "+obs.Fail)
			return
		}
		// the text views are built by other code than the JSON ones: they must cope with the same state
		for _, tv := range [][]string{{"list", "--all"}, {"list"}, {"list", "--ready"}} {
			if r := w.Run(core.R(w.Proj, tv...).In("")); r.Exit != 0 || r.Panic {
				violation("text-view-fails-after-crash", s, fmt.Sprintf("after the crash `ergo %s` fails: %s", strings.Join(tv, " "), r.String()))
				return
			}
		}
		clean := cleanOf(s.Store)
		clean.Materialize(w.Proj)
		cobs := core.ObserveW(w, w.Proj)
		if cobs.Raw() != obs.Raw() {
			violation("crash-state-differs-from-its-whole-events", s, "the store after the crash does not show exactly the whole events recorded in it")
			return
		}
		if !tornTail(s.Store) && !hasTmp(s.Store) {
			return // identical to a state no crash is needed for; follow-ups from such states are covered by the sequential checks
		}
		for _, m := range menu {
			run := func(st core.Store) (core.Res, core.Obs, core.Store) {
				st.Materialize(w.Proj)
				req := m.Req
				req.Cwd = w.Proj
				res := w.Run(req)
				after, _ := core.Snapshot(w.Proj)
				return res, core.ObserveW(w, w.Proj), after
			}
			r1, o1, after1 := run(s.Store)
			if os.Getenv("VERIF_DEBUG") != "" && m.Name == "compact" && hasTmp(s.Store) {
				env.Logf("DEBUG compact on tmp state: tmp=%d log=%d -> after log=%d fail=%q path=%v", len(s.Store[s.Store.LogName()+".tmp"]), len(s.Store.Log()), len(after1.Log()), o1.Fail, s.Path)
			}
			r2, o2, _ := run(clean)
			atomic.AddInt64(&followUps, 2)
			hist := &c03State{Root: rootOf(s, s.Store), Store: after1, Path: append(append([]string{}, s.Path...), "then `"+m.Req.Shell()+"` runs to completion"), Arts: append(append([]crashStep{}, s.Arts...), crashStep{Req: m.Req, Target: -1, Keep: -1})}
			switch {
			case o1.Fail != "":
				violation("store-unreadable-after-recovery-command cmd="+m.Name, hist, fmt.Sprintf("`%s` exits %d after the crash; from then on reads fail: %s", m.Req.Shell(), r1.Exit, o1.Fail))
			case r1.Exit != r2.Exit:
				violation("recovery-command-outcome-differs cmd="+m.Name, hist, fmt.Sprintf("`%s` exits %d on the crashed store but %d on the same whole events (%s)", m.Req.Shell(), r1.Exit, r2.Exit, clipS(string(r1.Err), 200)))
			case o1.Norm(o1.TitleMap()) != o2.Norm(o2.TitleMap()):
				violation("recovery-command-effect-differs cmd="+m.Name, hist, fmt.Sprintf("after `%s` the crashed store and the clean store with the same whole events differ:\n%s", m.Req.Shell(), diffLines(o1.Norm(o1.TitleMap()), o2.Norm(o2.TitleMap()), "")))
			}
			classes.inc(fmt.Sprintf("follow-up %s exit=%d", m.Name, r1.Exit))
		}
	}

	// expand: crash the given commands at every mutating call (+ torn offsets of log writes) from state s.
	expand := func(w *core.Worker, s *c03State, cmds []crashCmd) []*c03State {
		var out []*c03State
		root, scratch := crashWorkdir(w)
		pre := s.Store
		preEvents, _ := core.ParseLog(cleanOf(pre).Log())
		for _, c := range cmds {
			if !env.TimeLeft() {
				break
			}
			pre.Materialize(root)
			ref, err := crash.Run(env.Prod, root, c.Req, "", scratch)
			if err != nil {
				env.HarnessError("strace pass 0: %v", err)
			}
			atomic.AddInt64(&straceRuns, 1)
			completed, _ := core.Snapshot(root)
			doneEvents, okDone := core.ParseLog(completed.Log())
			// completed run: history only grows (or is compacted)
			if ref.Exit == 0 && okDone && c.Name != "compact" && !hasPrefixEvents(doneEvents, preEvents) {
				ns := &c03State{Root: rootOf(s, s.Store), Store: completed, Path: append(append([]string{}, s.Path...), "`"+c.Req.Shell()+"` completes"), Arts: append(append([]crashStep{}, s.Arts...), crashStep{Req: c.Req, Target: -1, Keep: -1})}
				violation("acknowledged-events-lost cmd="+c.Name, ns, "after the command completed, the events recorded before it are no longer all present in order")
			}
			mut := ref.Mutating()
			for n, target := range mut {
				st, ok := killAtRetry(env, root, scratch, pre, c.Req, ref, target)
				atomic.AddInt64(&straceRuns, 1)
				if !ok {
					atomic.AddInt64(&notLanded, 1)
					continue
				}
				atomic.AddInt64(&crashStates, 1)
				call := ref.Calls[target]
				ns := &c03State{Root: rootOf(s, s.Store), Store: st, Depth: s.Depth + 1, Path: append(append([]string{}, s.Path...), fmt.Sprintf("`%s` killed on entry to mutating call %d/%d %s", c.Req.Shell(), n+1, len(mut), clipS(call.String(), 60))),
					Arts: append(append([]crashStep{}, s.Arts...), crashStep{Req: c.Req, Target: target, Keep: -1})}
				// (b) at most the interrupted command's own events are missing: the old events are all there, in order
				xe, _ := core.ParseLog(cleanOf(st).Log())
				if c.Name != "compact" && !hasPrefixEvents(xe, preEvents) {
					violation("acknowledged-events-lost-by-crash cmd="+c.Name, ns, "events recorded before the interrupted command are missing or altered after the kill")
				}
				classes.inc(fmt.Sprintf("%s kill@%d/%d", c.Name, n+1, len(mut)))
				out = append(out, ns)
				// torn variants: this call is a write to the log that was cut short
				if (call.Name == "write" || call.Name == "pwrite64") && strings.HasSuffix(call.Path, ".jsonl") {
					// state with the full write = next crash state (or completed); derive the bytes from the completed run
					full := completed.Log()
					base := st.Log()
					if len(full) >= len(base)+int(call.Ret) && bytes.HasPrefix(full, base) && call.Path == st.LogName() {
						data := full[len(base) : len(base)+int(call.Ret)]
						for _, t := range tornOffsetsOf(data, env.Thorough()) {
							ts := st.WithLog(append(append([]byte{}, base...), data[:t]...))
							atomic.AddInt64(&tornStates, 1)
							out = append(out, &c03State{Root: rootOf(s, s.Store), Store: ts, Depth: s.Depth + 1,
								Path: append(append([]string{}, s.Path...), fmt.Sprintf("`%s` dies %d bytes into its %d-byte write", c.Req.Shell(), t, len(data))),
								Arts: append(append([]crashStep{}, s.Arts...), crashStep{Req: c.Req, Target: target, Keep: t})})
						}
					}
				}
			}
		}
		return out
	}

	maxDepth := 2
	if env.Thorough() {
		maxDepth = 3
	}
	frontier := roots
	exhaustive := true
	for depth := 1; depth <= maxDepth && len(frontier) > 0; depth++ {
		cmds := menu
		if depth >= 2 {
			// deeper crashes: the append path and the two rewrite commands (the composite commands are sequences of these)
			cmds = []crashCmd{menu[0], menu[3], menu[4], menu[8], menu[9], menu[10]}
			if depth >= 3 {
				cmds = []crashCmd{menu[0], menu[4], menu[10]}
			}
		}
		var next []*c03State
		var nmu sync.Mutex
		fr := frontier
		env.Parallel(len(fr), func(w *core.Worker, i int) {
			if !env.TimeLeft() {
				return
			}
			use := cmds
			if depth == 1 && fr[i].Cmds != nil {
				use = nil
				for _, ci := range fr[i].Cmds {
					use = append(use, menu[ci])
				}
			}
			for _, ns := range expand(w, fr[i], use) {
				if !env.TimeLeft() {
					break // the level is then reported as not completed (exhaustive=false) below
				}
				k := key(ns.Store)
				mu.Lock()
				dup := seen[k]
				seen[k] = true
				mu.Unlock()
				if dup {
					continue
				}
				settle(w, ns)
				if len(ns.Path) == 2 && strings.Contains(ns.Path[1], "bytes into") {
					samples.add(map[string]interface{}{"history": ns.Path})
				}
				nmu.Lock()
				next = append(next, ns)
				nmu.Unlock()
			}
		})
		if !env.TimeLeft() {
			exhaustive = false
			break
		}
		env.Logf("crash depth %d: %d new distinct states", depth, len(next))
		// deeper levels continue only from states that still carry crash damage (torn tail / temp file) plus a few clean ones
		frontier = nil
		for _, s := range next {
			if tornTail(s.Store) || hasTmp(s.Store) {
				frontier = append(frontier, s)
			}
		}
		if !env.Thorough() && len(frontier) > 150 {
			sort.Slice(frontier, func(i, j int) bool { return key(frontier[i].Store) < key(frontier[j].Store) })
			exhaustive = false
			frontier = frontier[:150]
		}
	}
	if len(samples.list) == 0 {
		samples.add("no torn state produced")
	}
	env.Finish("model_checking", map[string]interface{}{
		"short_write_phase": shortCov,
		"states":            len(seen), "transitions": crashStates + tornStates + followUps, "traces_validated_against_impl": crashStates,
		"samples": samples.list, "exhaustive": exhaustive && notLanded == 0, "crash_depth": maxDepth,
		"crash_states": crashStates, "torn_states": tornStates, "distinct_states": len(seen), "states_checked": statesChecked,
		"recovery_commands_run": followUps, "strace_runs": straceRuns, "kill_points_not_landed": notLanded, "outcome_classes": classes.snapshot(),
		"unconfirmed_candidates": unconfirmed.Load(),
		"explanation":            "explicit-state search over crash states: from 3 pre-states (+ the first one with CRLF line ends, reduced menu) every command of a 15-command menu is killed (production binary, SIGKILL via strace) on entry to every store-mutating system call, and every log write is additionally cut short at byte offsets {1,2,L/2,L-2,L-1} and at every line boundary of a multi-event batch +-1 (thorough: every offset of writes up to 4 KiB, 256 evenly spaced cuts plus the 4 KiB / 64 KiB marks of larger ones); each distinct state must be readable (JSON reads and the text views), show exactly its whole events, keep every earlier event in order, and every menu command must then behave exactly as on the clean store with the same whole events and leave the store readable; damaged states (torn tail / temp file) are crashed again (depth 2; thorough 3)",
	}, []string{
		"process death only: page cache survives SIGKILL, no power-loss / fsync reordering model",
		"a torn write is a byte prefix of the data of one write(2)",
		"quick tier continues from at most 150 damaged states per level (reported as exhaustive=false when the cap bites)",
	})
}

func hasTmp(st core.Store) bool {
	for k := range st {
		if strings.HasSuffix(k, ".tmp") {
			return true
		}
	}
	return false
}

// hasPrefixEvents: old events all present, in order, unchanged, at the start of the new sequence.
func hasPrefixEvents(now, old []core.Event) bool {
	if len(now) < len(old) {
		return false
	}
	for i := range old {
		if now[i].Type != old[i].Type || now[i].TS != old[i].TS {
			return false
		}
		a, _ := json.Marshal(now[i].Data) // canonical (sorted keys): a rewrite may re-serialise an event, its content must not change
		b, _ := json.Marshal(old[i].Data)
		if string(a) != string(b) {
			return false
		}
	}
	return true
}

func rootOf(s *c03State, def core.Store) core.Store {
	if s.Root != nil {
		return s.Root
	}
	return def
}
