package checks

import (
	"fmt"
	"strings"

	"verif/internal/core"
	"verif/internal/sched"
)

// concPhase explores a few two-process scenarios for a property whose main check is sequential: the
// property's own invariant is evaluated on the quiescent final state of every interleaving (preemption
// bound 2), together with the serial-equivalence oracle.
func concPhase(env *core.Env, check string, scenarios []sched.Scenario, invariant func(obs core.Obs) string) map[string]interface{} {
	st := newSchedStats()
	var jobs []schedJob
	for _, sc := range scenarios {
		sc := sc
		serial := serialJudge(env, check, sc, false)
		jobs = append(jobs, schedJob{Sc: sc, Bound: 2, Judge: func(w *core.Worker, ex *sched.Exec) (string, string) {
			if ex.Blocked == "" && ex.Final != nil {
				ex.Final.Materialize(w.Proj)
				obs := core.ObserveW(w, w.Proj)
				if obs.Fail == "" {
					if msg := invariant(obs); msg != "" {
						return check + " kind=concurrent-invariant " + strings.SplitN(msg, ":", 2)[0] + " scenario=" + sc.Name, msg
					}
				}
			}
			sig, d := serial(w, ex)
			if strings.Contains(sig, "serializable-only-at-lock-section-granularity") {
				return "", "" // atomicity of composite commands is C02's known finding, not this property's
			}
			var parts []string
			for i, r := range ex.Results {
				parts = append(parts, fmt.Sprintf("p%d:%d", i, r.Exit))
			}
			st.Outcomes.inc(sc.Name + " " + strings.Join(parts, ","))
			return sig, d
		}})
	}
	exploreMany(env, st, check, jobs, 4)
	return map[string]interface{}{"scenarios": st.PerScenario, "schedules_executed": st.Executions, "bound_completed": st.BoundCompleted, "exhaustive": st.Exhaustive,
		"rule": "two real processes per scenario, every interleaving of the hooked store steps up to 2 preemptions; oracle: the property's invariant on the final state + serial equivalence"}
}

func registerConcJudge(check string, invariant func(core.Obs) string) {
	schedJudges[check] = func(env *core.Env, sc sched.Scenario) func(*core.Worker, *sched.Exec) (string, string) {
		serial := serialJudge(env, check, sc, false)
		return func(w *core.Worker, ex *sched.Exec) (string, string) {
			if ex.Blocked == "" && ex.Final != nil {
				ex.Final.Materialize(w.Proj)
				obs := core.ObserveW(w, w.Proj)
				if obs.Fail == "" {
					if msg := invariant(obs); msg != "" {
						return check + " kind=concurrent-invariant " + strings.SplitN(msg, ":", 2)[0], msg
					}
				}
			}
			return serial(w, ex)
		}
	}
}

// ---- invariants --------------------------------------------------------------------------------

func invC06(obs core.Obs) string {
	for id, sh := range obs.Shows {
		it, _ := obs.Item(id)
		if it.Kind == "epic" {
			if sh.State != "todo" || sh.ClaimedBy != "" {
				return fmt.Sprintf("epic-has-state-or-claim: epic %s state=%s claimed_by=%q", id, sh.State, sh.ClaimedBy)
			}
			continue
		}
		if !c06Invariant(sh.State, sh.ClaimedBy) {
			return fmt.Sprintf("claim-invariant-broken: task %s is %s with claimant %q", id, sh.State, sh.ClaimedBy)
		}
	}
	return ""
}

func invC14(obs core.Obs) string {
	live := map[string]bool{}
	for _, e := range obs.Epics {
		live[e.ID] = true
		if obs.Shows[e.ID].EpicID != "" {
			return "epic-belongs-to-something: " + e.ID
		}
	}
	for _, t := range obs.All {
		if ep := obs.Shows[t.ID].EpicID; ep != "" && !live[ep] {
			return fmt.Sprintf("task-references-dead-epic: task %s (%s) has epic_id %s which is not a live epic", t.ID, t.Title, ep)
		}
	}
	return ""
}

func init() {
	registerConcJudge("C06", invC06)
	registerConcJudge("C14", invC14)
	registerConcJudge("C09", invC14)
	registerConcJudge("C10", func(core.Obs) string { return "" })
}
