package checks

import (
	"bytes"
	"encoding/json"
	"fmt"
	"io"
	"os"
	"path/filepath"
	"regexp"
	"sort"
	"strings"
	"sync"
	"sync/atomic"

	"verif/internal/core"
)

func init() { Registry["C16"] = runC16 }

var idShape = regexp.MustCompile(`^[A-Z2-7]{6}$`)

// oneJSONValue: stdout is exactly one JSON value followed only by whitespace.
func oneJSONValue(b []byte) (interface{}, error) {
	dec := json.NewDecoder(bytes.NewReader(b))
	dec.UseNumber()
	var v interface{}
	if err := dec.Decode(&v); err != nil {
		return nil, fmt.Errorf("not JSON: %v", err)
	}
	var extra interface{}
	if err := dec.Decode(&extra); err != io.EOF {
		return nil, fmt.Errorf("more than one value / trailing data")
	}
	return v, nil
}

func str(m map[string]interface{}, k string) string {
	s, _ := m[k].(string)
	return s
}

// moveJSONFlag places --json after the subcommand words instead of before.
func moveJSONFlag(r core.Req) (core.Req, bool) {
	if len(r.Args) == 0 || r.Args[0] != "--json" {
		return r, false
	}
	n := r
	n.Args = append(append([]string{}, r.Args[1:]...), "--json")
	return n, true
}

func runC16(env *core.Env) {
	w0 := env.W0()
	rich := buildRich(env, w0)
	pres := []core.Store{rich.Store}
	{
		// a store where nothing is ready and one right after init
		fx := NewFix(env, w0)
		pres = append(pres, fx.Store())
		fx2 := FixFrom(env, w0, rich.Store, rich.N)
		fx2.Must(core.R("", "--json", "compact"))
		pres = append(pres, fx2.Store())
		// a chain todo <- canceled <- error (so that some requested edges are already implied transitively)
		fx3 := FixFrom(env, w0, rich.Store, rich.N)
		fx3.Must(core.R("", "--json", "sequence", rich.ByState["todo"], rich.ByState["canceled"], rich.ByState["error"]))
		pres = append(pres, fx3.Store())
		// a store whose last writer died mid-line
		pres = append(pres, tornVariants(rich.Store)[0])
		// ... or died just before the final newline: the last event is complete and counts, the next append must keep it
		// (that last event renames the task most requests address, so a reply built from it shows if it gets lost)
		fx4 := FixFrom(env, w0, rich.Store, rich.N)
		fx4.Must(core.R("", "--json", "set", rich.ByState["todo"]).In(`{"title":"t-todo renamed last"}`))
		pres = append(pres, tornVariants(fx4.Store())[1])
	}
	var cases []c10Case
	for _, c := range c10Catalogue(rich, env.Thorough()) {
		if c.Busy {
			continue
		}
		cases = append(cases, c)
		if m, ok := moveJSONFlag(c.Req); ok && (env.Thorough() || len(cases)%5 == 0) {
			cases = append(cases, c10Case{Site: c.Site, Req: m})
		}
	}
	// success-oriented requests the failure catalogue lacks
	extra := []core.Req{
		core.R("", "--json", "init"), core.R("", "--json", "where"), core.R("", "--json", "list"), core.R("", "--json", "list", "--all"),
		core.R("", "--json", "list", "--ready"), core.R("", "--json", "list", "--epics"), core.R("", "--json", "list", "--epic", rich.E1),
		core.R("", "--json", "list", "--epic", rich.E1, "--ready"), core.R("", "--json", "prune"), core.R("", "--json", "prune", "--yes"), core.R("", "--json", "compact"),
		core.R("", "--json", "claim", "--agent", "ag"), core.R("", "--json", "claim", "--agent", "ag", "--epic", rich.E1),
		core.R("", "--json", "plan").In(`{"title":"P","body":"pb","tasks":[{"title":"a","body":"ab"},{"title":"b","after":["a"]},{"title":"c","after":["a","b","a"]}]}`),
		core.R("", "--json", "sequence", rich.ByState["todo"], rich.ByState["canceled"], rich.ByState["error"]),
		core.R("", "--json", "sequence", "rm", rich.ByState["doing"], rich.Child),
		core.R("", "--json", "sequence", rich.ByState["todo"], rich.ByState["error"]),
		core.R("", "--json", "sequence", rich.ByState["todo"], rich.ByState["canceled"]),
		core.R("", "--json", "new", "task").In(`{"title":"X","claim":"me"}`), core.R("", "--json", "new", "task").In(`{"title":"X","state":"done"}`),
		core.R("", "--json", "new", "task").In(`{"title":"X","state":"blocked","claim":"me","body":"b"}`),
		core.R("", "--json", "--agent", "ag", "new", "task").In(`{"title":"X","state":"doing"}`),
		core.R("", "--json", "new", "task", "--title", "X", "--claim", "me"), core.R("", "--json", "new", "task", "--title", "X", "--state", "done"),
		core.R("", "--json", "new", "task", "--title", "X", "--claim", "me", "--body-stdin").In("the body"),
		core.R("", "--json", "new", "task").In(`{"title":"X","result_path":"out.txt","result_summary":"s","state":"done"}`),
		// claimant names with surrounding white space: whatever is recorded, the reply must report exactly that
		core.R("", "--json", "claim", rich.ByState["todo"], "--agent", " bob@host "), core.R("", "--json", "--agent", "\tbob ", "claim", rich.ByState["todo"]),
		core.R("", "--json", "claim", "--agent", " bob@host "), core.R("", "--json", "set", rich.ByState["todo"]).In(`{"claim":" padded name "}`),
		core.R("", "--json", "set", rich.ByState["todo"], "--claim", " padded name ", "--state", "blocked"),
		core.R("", "--json", "new", "task").In(`{"title":"X","claim":" padded name "}`), core.R("", "--json", "--agent", " implicit ", "set", rich.ByState["todo"]).In(`{"state":"doing"}`),
		core.R("", "--json", "-q", "list"), core.R("", "--json", "-v", "list"), core.R("", "--json", "-v", "new", "task").In(`{"title":"verbose"}`),
	}
	for _, r := range extra {
		cases = append(cases, c10Case{Site: "extra", Req: r})
		if m, ok := moveJSONFlag(r); ok {
			cases = append(cases, c10Case{Site: "extra", Req: m})
		}
		// -q / -v change what goes to stderr, never the one JSON value on stdout
		if len(r.Args) > 1 && r.Args[0] == "--json" && r.Args[1] != "-q" && r.Args[1] != "-v" {
			for _, fl := range []string{"-q", "-v"} {
				q := r
				q.Args = append([]string{"--json", fl}, r.Args[1:]...)
				cases = append(cases, c10Case{Site: "extra", Req: q})
				q2 := r
				q2.Args = append(append([]string{}, r.Args...), fl)
				cases = append(cases, c10Case{Site: "extra", Req: q2})
			}
		}
	}
	type job struct {
		pre int
		c   c10Case
	}
	// a store whose lock path cannot be opened as a file (a directory sits there): every writer fails at its first or - if
	// it orders its steps differently - at a later step; whatever it printed by then, the failing-command rule applies
	// (success-oriented requests only)
	lockDir := rich.Store.Clone()
	delete(lockDir, ".ergo/lock")
	lockDir["D:.ergo/lock"] = nil
	pres = append(pres, lockDir)
	var jobs []job
	for pi := range pres {
		for _, c := range cases {
			if pi == len(pres)-1 && c.Site != "extra" {
				continue
			}
			jobs = append(jobs, job{pi, c})
		}
	}
	preObs := make([]core.Obs, len(pres))
	for i, p := range pres {
		p.Materialize(w0.Proj)
		preObs[i] = core.ObserveW(w0, w0.Proj)
	}
	conf := newConformer(len(jobs)/300+1, 320)
	var evals, okCount, failCount, truthChecks, spawnedFailures int64
	var spawnedClasses sync.Map
	shapes := newCounter()
	samples := &sampleSet{max: 10}
	env.Parallel(len(jobs), func(w *core.Worker, i int) {
		if !env.TimeLeft() {
			return
		}
		j := jobs[i]
		pre := pres[j.pre]
		pre.Materialize(w.Proj)
		req := j.c.Req
		req.Cwd = w.Proj
		req.RandBase = 2*countCreates(pre.Log()) + 50
		res := w.Run(req)
		atomic.AddInt64(&evals, 1)
		conf.offer(w.Proj, pre, req, res)
		cls := opClass(req)
		bad := func(kind, detail string, as ...Assert) {
			report(env, "C16 kind="+kind+" cmd="+cls, fmt.Sprintf("pre-state %d: %s -> %s", j.pre, req.Shell(), detail), mkTrace(pre, kind, []core.Req{req}, as...))
		}
		if res.Panic || res.Timeout {
			bad("crash", res.String(), Assert{Kind: "exit_nonzero", Step: 1})
			return
		}
		if res.Exit != 0 {
			atomic.AddInt64(&failCount, 1)
			// the error line is printed by cmd/ergo's exit path, which the in-process server only mirrors: the first
			// request of every (command, error shape, quiet?) class is run once more as a spawned production binary
			key := cls + "|" + errClass(res.Err) + "|" + fmt.Sprint(contains(req.Args, "-q"))
			if _, dup := spawnedClasses.LoadOrStore(key, true); !dup && !res.Timeout {
				pre.Materialize(w.Proj)
				sreq := req
				sreq.RandBase = -1
				sres := w.Spawn(sreq)
				atomic.AddInt64(&spawnedFailures, 1)
				if sres.Exit != 0 && len(bytes.TrimSpace(sres.Err)) == 0 {
					bad("failure-without-stderr", "spawned production binary: "+sres.String(), Assert{Kind: "exit_nonzero", Step: 1}, Assert{Kind: "err_empty", Step: 1})
				}
				pre.Materialize(w.Proj)
			}
			if len(bytes.TrimSpace(res.Err)) == 0 {
				bad("failure-without-stderr", res.String(), Assert{Kind: "exit_nonzero", Step: 1})
			}
			if len(bytes.TrimSpace(res.Out)) > 0 {
				v, err := oneJSONValue(res.Out)
				m, isObj := v.(map[string]interface{})
				if err != nil || !isObj || m["error"] == nil {
					bad("failure-stdout-not-one-error-object", "stdout="+clipS(string(res.Out), 200), Assert{Kind: "exit_nonzero", Step: 1})
				}
				shapes.inc(cls + " fail+error-object")
			} else {
				shapes.inc(cls + " fail+empty-stdout")
			}
			return
		}
		if !contains(req.Args, "--json") {
			return // the shared catalogue also holds a few requests in text mode; what they print on success is not this property's
		}
		atomic.AddInt64(&okCount, 1)
		v, err := oneJSONValue(res.Out)
		if err != nil {
			bad("success-stdout-not-one-json-value", err.Error()+": "+clipS(string(res.Out), 200), Assert{Kind: "exit_zero", Step: 1})
			return
		}
		shapes.inc(cls + " ok")
		// truth: compare with an immediately following read
		obs := core.ObserveW(w, w.Proj)
		po := preObs[j.pre]
		m, _ := v.(map[string]interface{})
		lie := func(field string, reported, actual interface{}) {
			bad("reply-differs-from-read field="+field, fmt.Sprintf("reply says %s=%v, the following read shows %v (reply: %s)", field, reported, actual, clipS(string(res.Out), 300)), Assert{Kind: "exit_zero", Step: 1})
		}
		freshID := func(id string) {
			if !idShape.MatchString(id) {
				bad("bad-id-shape", "id "+id, Assert{Kind: "exit_zero", Step: 1})
			}
			if _, existed := po.Item(id); existed || contains(prunedIDs(pre.Log()), id) {
				bad("id-not-fresh", "id "+id+" existed before", Assert{Kind: "exit_zero", Step: 1})
			}
		}
		cmpShow := func(id string, fields map[string]interface{}) {
			sh, ok := obs.Shows[id]
			if !ok {
				lie("id", id, "<not shown>")
				return
			}
			actual := map[string]interface{}{"epic_id": sh.EpicID, "state": sh.State, "claimed_by": sh.ClaimedBy, "title": sh.Title, "body": sh.Body,
				"created_at": sh.CreatedAt, "uuid": sh.UUID, "claimed_at": sh.ClaimedAt}
			var ks []string
			for k := range fields {
				ks = append(ks, k)
			}
			sort.Strings(ks)
			for _, k := range ks {
				atomic.AddInt64(&truthChecks, 1)
				if fields[k] != actual[k] {
					lie(k, fields[k], actual[k])
				}
			}
		}
		switch {
		case cls == "new-task" || cls == "new-epic":
			id := str(m, "id")
			freshID(id)
			kind := "task"
			if cls == "new-epic" {
				kind = "epic"
			}
			if str(m, "kind") != kind {
				lie("kind", m["kind"], kind)
			}
			cmpShow(id, map[string]interface{}{"epic_id": str(m, "epic_id"), "state": str(m, "state"), "title": str(m, "title"), "body": str(m, "body"), "created_at": str(m, "created_at"), "uuid": str(m, "uuid")})
		case strings.HasPrefix(cls, "set"):
			f := map[string]interface{}{"state": str(m, "state"), "claimed_by": str(m, "claimed_by")}
			cmpShow(str(m, "id"), f)
		case cls == "claim":
			if str(m, "status") == "no_ready" {
				if len(obs.Ready) > 0 && !strings.Contains(strings.Join(req.Args, " "), "--epic") {
					lie("status", "no_ready", fmt.Sprintf("%d ready", len(obs.Ready)))
				}
				break
			}
			cmpShow(str(m, "id"), map[string]interface{}{"epic_id": str(m, "epic"), "state": str(m, "state"), "title": str(m, "title"), "body": str(m, "body"), "claimed_by": str(m, "agent_id"), "claimed_at": str(m, "claimed_at")})
		case cls == "sequence" || cls == "sequence-rm":
			edges, _ := m["edges"].([]interface{})
			for _, e := range edges {
				em, _ := e.(map[string]interface{})
				from, to := str(em, "from_id"), str(em, "to_id")
				has := contains(obs.Shows[from].Deps, to)
				atomic.AddInt64(&truthChecks, 1)
				if cls == "sequence" && !has {
					lie("edges", from+"->"+to, "absent")
				}
				if cls == "sequence-rm" && has {
					lie("edges(removed)", from+"->"+to, "still present")
				}
			}
		case cls == "plan":
			ep, _ := m["epic"].(map[string]interface{})
			freshID(str(ep, "id"))
			cmpShow(str(ep, "id"), map[string]interface{}{"title": str(ep, "title"), "uuid": str(ep, "uuid"), "created_at": str(ep, "created_at")})
			ts, _ := m["tasks"].([]interface{})
			for _, t := range ts {
				tm, _ := t.(map[string]interface{})
				freshID(str(tm, "id"))
				cmpShow(str(tm, "id"), map[string]interface{}{"title": str(tm, "title"), "epic_id": str(ep, "id"), "state": "todo", "claimed_by": ""})
			}
			edges, _ := m["edges"].([]interface{})
			reported := map[string]bool{}
			for _, e := range edges {
				em, _ := e.(map[string]interface{})
				reported[str(em, "from_id")+"->"+str(em, "to_id")] = true
			}
			actual := map[string]bool{}
			for _, t := range ts {
				id := str(t.(map[string]interface{}), "id")
				for _, d := range obs.Shows[id].Deps {
					actual[id+"->"+d] = true
				}
			}
			atomic.AddInt64(&truthChecks, 1)
			if !sameSet(reported, actual) {
				lie("edges", keys(reported), keys(actual))
			} else if len(edges) != len(actual) {
				// the same edges, but one of them reported more than once: the following read shows it once
				lie("edges(count)", len(edges), len(actual))
			}
		case cls == "prune":
			ids, _ := m["pruned_ids"].([]interface{})
			dry, _ := m["dry_run"].(bool)
			var want []string
			for _, x := range ids {
				want = append(want, x.(string))
			}
			sort.Strings(want)
			if dry {
				pre.Materialize(w.Proj)
				r2 := w.Run(core.R(w.Proj, "--json", "prune", "--yes"))
				got, _ := pruneIDs(r2)
				atomic.AddInt64(&truthChecks, 1)
				if strings.Join(got, ",") != strings.Join(want, ",") {
					lie("pruned_ids(dry-run)", want, got)
				}
			} else {
				for _, id := range want {
					atomic.AddInt64(&truthChecks, 1)
					if _, still := obs.Item(id); still {
						lie("pruned_ids", id, "still listed")
					}
					if _, was := po.Item(id); !was {
						lie("pruned_ids", id, "was not an item before")
					}
				}
				if len(po.All)+len(po.Epics)-len(want) != len(obs.All)+len(obs.Epics) {
					lie("pruned_ids(count)", len(want), len(po.All)+len(po.Epics)-len(obs.All)-len(obs.Epics))
				}
			}
		case cls == "where" || cls == "init":
			atomic.AddInt64(&truthChecks, 1)
			wantDir := filepath.Join(w.Proj, ".ergo")
			gotDir := str(m, "ergo_dir")
			if cls == "init" {
				gotDir = filepath.Join(w.Proj, gotDir)
			}
			if filepath.Clean(gotDir) != wantDir {
				lie("ergo_dir", str(m, "ergo_dir"), wantDir)
			}
		}
		samples.add(map[string]interface{}{"cmd": req.Shell(), "reply": clipS(string(res.Out), 160)})
	})
	// ---- stdout that cannot be written (redirected to a full device): a command that cannot deliver its one JSON value
	// has not succeeded - it must exit non-zero and say why on stderr. Every success-oriented request, on the rich store.
	var fullRuns, fullSkipped int64
	if _, err := os.Stat("/dev/full"); err == nil {
		env.Parallel(len(extra), func(w *core.Worker, i int) {
			r := extra[i]
			rich.Store.Materialize(w.Proj)
			r.Cwd = w.Proj
			r.RandBase = -1
			plain := w.Spawn(r)
			if plain.Exit != 0 || len(plain.Out) == 0 {
				atomic.AddInt64(&fullSkipped, 1)
				return
			}
			rich.Store.Materialize(w.Proj)
			r.StdoutTo = "/dev/full"
			res := w.Spawn(r)
			atomic.AddInt64(&fullRuns, 1)
			if res.Exit == 0 || len(bytes.TrimSpace(res.Err)) == 0 {
				sig := "C16 kind=stdout-write-failure-not-reported cmd=" + opClass(r)
				if env.ViolationSeen(sig) {
					return
				}
				rel := extra[i]
				rel.Cwd = "."
				rel.StdoutTo = "/dev/full"
				tr := mkTrace(rich.Store, "stdout is /dev/full", nil)
				tr.Steps = []core.Req{rel}
				tr.Shell = []string{extra[i].Shell() + " >/dev/full"}
				tr.FailIf = []Assert{{Kind: "exit_zero", Step: 1}}
				if res.Exit != 0 {
					tr.FailIf = []Assert{{Kind: "exit_nonzero", Step: 1}, {Kind: "err_empty", Step: 1}}
				}
				env.Violation(sig, fmt.Sprintf("`%s >/dev/full` exits %d with stderr %q: the JSON value could not be written, yet the failure is not reported", extra[i].Shell(), res.Exit, clipS(string(res.Err), 100)), tr)
			}
		})
	}
	validated := conf.run(env)
	env.Finish("model_checking", map[string]interface{}{
		"failure_classes_rechecked_on_spawned_binary": spawnedFailures,
		"stdout_unwritable_runs":                      fullRuns, "stdout_unwritable_skipped": fullSkipped,
		"states": len(pres), "transitions": evals, "traces_validated_against_impl": validated, "samples": samples.list,
		"evaluations": evals, "distinct_nontrivial": shapes.len(), "exhaustive": env.TimeLeft(),
		"rule":       "the C10 request catalogue (every command, field combination, input mode, failing variants) + success-oriented requests, with --json before and after the subcommand, on 6 pre-states (rich, fresh, compacted, with a dependency chain, with a torn tail, with a complete last event lacking its newline); every success-oriented request once more with stdout on /dev/full (must exit non-zero with a message); distinct = (command family, outcome shape)",
		"successful": okCount, "failing": failCount, "truth_comparisons": truthChecks, "outcome_shapes": shapes.snapshot(),
		"unconfirmed_candidates": unconfirmed.Load(),
	}, []string{"finite request catalogue over small value domains", "quickstart/version/--help print documentation, not store state, and are outside the alphabet"})
}
