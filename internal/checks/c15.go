package checks

import (
	"encoding/json"
	"fmt"
	"sort"
	"strings"
	"sync/atomic"

	"verif/internal/core"
)

func init() { Registry["C15"] = runC15 }

// waitsFor builds the effective waits-for relation among live tasks: own dependencies plus, for a task in
// epic E, every child of every epic that E depends on. inherited[t][u] marks edges that exist only via epics.
func waitsFor(o core.Obs) (rel map[string]map[string]bool, inherited map[string]map[string]bool) {
	rel = map[string]map[string]bool{}
	inherited = map[string]map[string]bool{}
	children := map[string][]string{}
	for _, t := range o.All {
		if t.EpicID != "" {
			children[t.EpicID] = append(children[t.EpicID], t.ID)
		}
	}
	isTask := map[string]bool{}
	for _, t := range o.All {
		isTask[t.ID] = true
	}
	for _, t := range o.All {
		rel[t.ID] = map[string]bool{}
		inherited[t.ID] = map[string]bool{}
		for _, d := range o.Shows[t.ID].Deps {
			if isTask[d] {
				rel[t.ID][d] = true
			}
		}
		if t.EpicID != "" {
			for _, de := range o.Shows[t.EpicID].Deps {
				for _, c := range children[de] {
					if !rel[t.ID][c] {
						inherited[t.ID][c] = true
					}
					rel[t.ID][c] = true
				}
			}
		}
	}
	return
}

// findCycle returns a cycle (as id list) in rel, or nil.
func findCycle(rel map[string]map[string]bool) []string {
	state := map[string]int{}
	var stack []string
	var found []string
	var visit func(u string) bool
	visit = func(u string) bool {
		state[u] = 1
		stack = append(stack, u)
		var vs []string
		for v := range rel[u] {
			vs = append(vs, v)
		}
		sort.Strings(vs)
		for _, v := range vs {
			if state[v] == 1 {
				for i, x := range stack {
					if x == v {
						found = append([]string{}, stack[i:]...)
						return true
					}
				}
			}
			if state[v] == 0 && visit(v) {
				return true
			}
		}
		stack = stack[:len(stack)-1]
		state[u] = 2
		return false
	}
	var us []string
	for u := range rel {
		us = append(us, u)
	}
	sort.Strings(us)
	for _, u := range us {
		if state[u] == 0 && visit(u) {
			return found
		}
	}
	return nil
}

func runC15(env *core.Env) {
	w0 := env.W0()
	fx := NewFix(env, w0)
	e1, e2 := fx.NewEpic("E1"), fx.NewEpic("E2")
	root := fx.Store()
	// a second root: epics D <- E <- F (E depends on D, F on E), one task in D and one in F; three tasks allowed there
	fx3 := NewFix(env, w0)
	dEp, eEp, fEp := fx3.NewEpic("D"), fx3.NewEpic("E"), fx3.NewEpic("F")
	fx3.NewTask(map[string]interface{}{"title": "d", "epic": dEp})
	fx3.NewTask(map[string]interface{}{"title": "f", "epic": fEp})
	fx3.Must(core.R("", "sequence", dEp, eEp))
	fx3.Must(core.R("", "sequence", eEp, fEp))
	chainRoot := fx3.Store()
	chainKey := core.CanonLog(chainRoot.Log())
	fromChain := func(n *Node) bool { return core.CanonLog(rootOfNode(n).Log()) == chainKey }
	// a third root: epics D <- E (E depends on D) with one task each, plus two unfiled tasks; only edges are added here
	// (every acyclic task graph on the four tasks is reachable that way), under every epic-edge configuration, so
	// cycles whose inherited wait sits between two unfiled endpoints are covered
	fx4 := NewFix(env, w0)
	d4, e4 := fx4.NewEpic("D"), fx4.NewEpic("E")
	fx4.NewTask(map[string]interface{}{"title": "y", "epic": d4})
	fx4.NewTask(map[string]interface{}{"title": "x", "epic": e4})
	fx4.NewTask(map[string]interface{}{"title": "p"})
	fx4.NewTask(map[string]interface{}{"title": "q"})
	fx4.Must(core.R("", "sequence", d4, e4))
	mixRoot := fx4.Store()
	mixKey := core.CanonLog(mixRoot.Log())
	fromMix := func(n *Node) bool { return core.CanonLog(rootOfNode(n).Log()) == mixKey }
	maxTasks := 2
	if env.Thorough() {
		maxTasks = 3
	}
	gen := func(n *Node) []core.Req {
		obs := n.Aux.(core.Obs)
		if obs.Fail != "" {
			return nil
		}
		var tasks, epics []string
		for _, t := range obs.All {
			tasks = append(tasks, t.ID)
		}
		for _, e := range obs.Epics {
			epics = append(epics, e.ID)
		}
		var out []core.Req
		if fromMix(n) {
			for _, a := range tasks {
				for _, b := range tasks {
					if a != b {
						out = append(out, core.R("", "--json", "sequence", a, b))
					}
				}
			}
			out = append(out, core.R("", "--json", "sequence", d4, e4), core.R("", "--json", "sequence", e4, d4), core.R("", "--json", "sequence", "rm", d4, e4), core.R("", "--json", "sequence", "rm", e4, d4))
			if env.Thorough() {
				for _, t := range tasks {
					for _, e := range []string{d4, e4, ""} {
						out = append(out, core.R("", "--json", "set", t).In(jsonStr(map[string]string{"epic": e})))
					}
				}
			}
			return out
		}
		limit := maxTasks
		if fromChain(n) {
			if n.Depth >= 3 {
				return nil // the chain root is explored to depth 3
			}
			limit = 3
		}
		if len(tasks) < limit {
			out = append(out, core.R("", "--json", "new", "task").In(`{"title":"t"}`))
			for _, e := range epics {
				out = append(out, core.R("", "--json", "new", "task").In(jsonStr(map[string]string{"title": "t", "epic": e})))
				out = append(out, core.R("", "--json", "new", "task", "--title", "t", "--epic", e))
			}
		}
		if env.Thorough() && len(tasks) == 0 && len(epics) < 3 { // plan only as a first step: it adds an epic and two tasks at once
			out = append(out, core.R("", "--json", "plan").In(`{"title":"P","tasks":[{"title":"a"},{"title":"b","after":["a"]}]}`))
		}
		for _, t := range tasks {
			for _, e := range append(append([]string{}, epics...), "") {
				out = append(out, core.R("", "--json", "set", t).In(jsonStr(map[string]string{"epic": e})))
			}
			out = append(out, core.R("", "--json", "set", t).In(`{"state":"done"}`), core.R("", "--json", "set", t).In(`{"state":"todo"}`))
		}
		for _, grp := range [][]string{tasks, epics} {
			for _, a := range grp {
				for _, b := range grp {
					if a != b {
						out = append(out, core.R("", "--json", "sequence", a, b), core.R("", "--json", "sequence", "rm", a, b))
						out = append(out, core.R("", "--json", "sequence", a, b, a)) // a chain that revisits an id
					}
				}
			}
		}
		if len(prunedIDs(n.Store.Log())) < 2 {
			out = append(out, core.R("", "--json", "prune", "--yes"))
		}
		return out
	}
	var checked, progressStates, stuck, cyclic int64
	samples := &sampleSet{max: 8}
	b := &BFS{Env: env, Roots: []core.Store{root, chainRoot, mixRoot}, KeyFn: graphKey, Ops: gen, MaxStates: 150000}
	b.Conf = newConformer(100, 300)
	b.OnState = func(w *core.Worker, n *Node) {
		obs := n.Aux.(core.Obs)
		atomic.AddInt64(&checked, 1)
		if obs.Fail != "" {
			report(env, "C15 kind=store-unreadable", obs.Fail, mkTrace(rootOfNode(n), "reads fail", n.Path, Assert{Kind: "read_fails", Step: len(n.Path)}))
			return
		}
		last := "initial"
		if len(n.Path) > 0 {
			last = opClass(n.Path[len(n.Path)-1])
		}
		rel, inh := waitsFor(obs)
		parentCyclic := false
		if n.Parent != nil {
			if po, ok := n.Parent.Aux.(core.Obs); ok && po.Fail == "" {
				prel, _ := waitsFor(po)
				parentCyclic = findCycle(prel) != nil
			}
		}
		if cyc := findCycle(rel); cyc != nil {
			atomic.AddInt64(&cyclic, 1)
			if parentCyclic {
				goto progress // the cycle was closed earlier on this path and reported there
			}
			nInh := 0
			for i, u := range cyc {
				v := cyc[(i+1)%len(cyc)]
				if inh[u][v] {
					nInh++
				}
			}
			cls := "direct-edges-only"
			if nInh > 0 {
				cls = "with-inherited-epic-edge"
			}
			report(env, fmt.Sprintf("C15 kind=waits-for-cycle %s closed-by=%s", cls, last), fmt.Sprintf("waits-for cycle %v (%d inherited edges) after %v", cyc, nInh, n.Shell()),
				mkTrace(rootOfNode(n), "effective waits-for relation has a cycle", n.Path, Assert{Kind: "has_waits_for_cycle", Step: len(n.Path)}))
		}
	progress:
		// progress: some todo, none doing/blocked/error => something is ready and claim does not say no_ready
		todo, held, ready := 0, 0, 0
		for _, t := range obs.All {
			switch t.State {
			case "todo":
				todo++
			case "doing", "blocked", "error":
				held++
			}
			if t.Ready {
				ready++
			}
		}
		if todo > 0 && held == 0 {
			atomic.AddInt64(&progressStates, 1)
			res := w.Run(core.R(w.Proj, "--json", "claim", "--agent", "z"))
			var rep struct{ Status string }
			json.Unmarshal(res.Out, &rep)
			if ready == 0 || rep.Status == "no_ready" || res.Exit != 0 {
				atomic.AddInt64(&stuck, 1)
				cause := "no-waits-for-cycle"
				if cyc := findCycle(rel); cyc != nil {
					cause = "waits-for-cycle-direct-edges-only"
					for i, u := range cyc {
						if inh[u][cyc[(i+1)%len(cyc)]] {
							cause = "waits-for-cycle-with-inherited-epic-edge"
						}
					}
				}
				steps := append(append([]core.Req{}, n.Path...), core.R("", "--json", "claim", "--agent", "z"))
				report(env, "C15 kind=no-progress cause="+cause, fmt.Sprintf("%d todo tasks, none doing/blocked/error, ready=%d, claim says %q after %v", todo, ready, strings.TrimSpace(string(res.Out)), n.Shell()),
					mkTrace(rootOfNode(n), "unfinished work, nothing held, nothing ready", steps, Assert{Kind: "out_contains", Step: len(steps), Text: "no_ready"}))
			}
		}
		if n.Depth > 0 && n.Depth%2 == 0 {
			samples.add(map[string]interface{}{"path": n.Shell(), "todo": todo, "ready": ready})
		}
	}
	b.Run()
	siblings := c15SiblingLists(env)
	validated := b.Conf.run(env)
	env.Finish("model_checking", map[string]interface{}{
		"sibling_list_phase": siblings,
		"states": b.States, "transitions": b.Transitions, "traces_validated_against_impl": validated, "samples": samples.list,
		"exhaustive": b.Exhaustive, "cap_hit": b.CapHit, "bfs_depth": b.DepthDone, "states_checked": checked,
		"states_where_progress_is_required": progressStates, "stuck_states": stuck, "states_with_waits_for_cycle": cyclic,
		"unconfirmed_candidates": unconfirmed.Load(),
		"second_root":            "epics D<-E<-F with a task in D and in F, <=3 tasks, depth 3",
		"third_root":             "epics D<-E with one task each + two unfiled tasks: every task edge added in every order (all acyclic task graphs on 4 tasks) x epic edge {D<-E, E<-D, none}, to fixpoint (thorough: also epic moves)",
		"bound":                  fmt.Sprintf("2 epics (thorough: +1 via plan), <=%d tasks; new task (root/in epic), set epic, sequence and sequence rm on every task pair and epic pair, done/todo, prune, plan; BFS to fixpoint on the canonical graph", maxTasks),
	}, []string{"state key = canonical labelled graph"})
	_, _ = e1, e2
}

// opClass names the command family of a request (for signatures).
func opClass(r core.Req) string {
	a := r.Args
	for len(a) > 0 && strings.HasPrefix(a[0], "-") {
		if a[0] == "--agent" || a[0] == "--dir" {
			a = a[1:]
		}
		a = a[1:]
	}
	if len(a) == 0 {
		return "none"
	}
	switch a[0] {
	case "sequence":
		if len(a) > 1 && a[1] == "rm" {
			return "sequence-rm"
		}
		return "sequence"
	case "new":
		if len(a) > 1 {
			return "new-" + a[1]
		}
	case "set":
		if r.Stdin != nil {
			var m map[string]interface{}
			if json.Unmarshal(*r.Stdin, &m) == nil {
				var ks []string
				for k := range m {
					ks = append(ks, k)
				}
				sort.Strings(ks)
				return "set-" + strings.Join(ks, "+")
			}
		}
		return "set"
	case "prune":
		return "prune"
	}
	return a[0]
}

// c15SiblingLists: wider stores than the search reaches - an epic F with two or three children that have dependency lists
// of their own (2-3 entries each), an epic E that waits for F, and a task A in E. The edge "X (in F) waits for A" closes
// a cycle through the inherited wait of A for F's children and must be refused - on every one of 30 attempts per store
// (what a search over shared scratch lists answers can depend on the order in which a map is walked).
func c15SiblingLists(env *core.Env) map[string]interface{} {
	type cfg struct {
		nY      int  // dependencies of the sibling Y
		done    bool // Y and its dependencies finished
		third   bool // a third child W of F with two dependencies of its own
		xFirst  bool // X created before Y
		attempt int
	}
	var cfgs []cfg
	for _, nY := range []int{2, 3} {
		for _, done := range []bool{true, false} {
			for _, third := range []bool{false, true} {
				for _, xf := range []bool{true, false} {
					cfgs = append(cfgs, cfg{nY: nY, done: done, third: third, xFirst: xf})
				}
			}
		}
	}
	var attempts int64
	env.Parallel(len(cfgs), func(w *core.Worker, i int) {
		c := cfgs[i]
		l := newSynLog()
		e, f := core.IDFor(9701), core.IDFor(9702)
		a, x, y, wv := core.IDFor(9703), core.IDFor(9704), core.IDFor(9705), core.IDFor(9706)
		l.Create(SynItem{ID: e, Epic: true, Title: "E waits for F"})
		l.Create(SynItem{ID: f, Epic: true, Title: "F"})
		l.Create(SynItem{ID: a, Title: "A", In: e})
		if c.xFirst {
			l.Create(SynItem{ID: x, Title: "X", In: f})
			l.Create(SynItem{ID: y, Title: "Y", In: f})
		} else {
			l.Create(SynItem{ID: y, Title: "Y", In: f})
			l.Create(SynItem{ID: x, Title: "X", In: f})
		}
		var zs []string
		for k := 0; k < c.nY; k++ {
			z := core.IDFor(int64(9710 + k))
			zs = append(zs, z)
			l.Create(SynItem{ID: z, Title: fmt.Sprintf("Z%d", k)})
		}
		l.Link(e, f)
		for _, z := range zs {
			l.Link(y, z)
		}
		l.Link(x, y)
		if c.third {
			l.Create(SynItem{ID: wv, Title: "W", In: f})
			l.Link(wv, zs[0])
			l.Link(wv, y)
		}
		if c.done {
			for _, z := range zs {
				l.State(z, "done")
			}
			l.State(y, "done")
		}
		st := core.Store{".ergo/plans.jsonl": l.Bytes(), ".ergo/lock": nil}
		req := core.R("", "--json", "sequence", a, x) // X waits for A
		for k := 0; k < 30; k++ {
			st.Materialize(w.Proj)
			run := req
			run.Cwd = w.Proj
			res := w.Run(run)
			atomic.AddInt64(&attempts, 1)
			if res.Exit != 0 {
				continue
			}
			report(env, "C15 kind=waits-for-cycle with-inherited-epic-edge closed-by=sequence store=sibling-lists", fmt.Sprintf("epic E waits for epic F, A in E, X and Y in F with dependency lists of their own (Y has %d, finished=%v, third child=%v): `sequence A X` (X waits for A, A waits for X through the epics) accepted on attempt %d", c.nY, c.done, c.third, k+1),
				mkTrace(st, "sibling dependency lists", []core.Req{req}, Assert{Kind: "exit_zero", Step: 1}, Assert{Kind: "has_waits_for_cycle", Step: 1}))
			return
		}
	})
	return map[string]interface{}{"stores": len(cfgs), "attempts": attempts, "rule": "16 stores (Y with 2/3 dependencies x finished or not x third child or not x creation order) x 30 attempts of the cycle-closing sequence: refused every time"}
}
