package checks

import (
	"encoding/json"
	"fmt"
	"os"
	"path/filepath"
	"sort"
	"strings"
	"sync"
	"sync/atomic"

	"verif/internal/core"
	"verif/internal/sched"
)

// ---------------------------------------------------------------------------------------------
// serial-equivalence oracle on the real implementation

type outcome struct {
	OK    bool
	Busy  bool
	Reply string // normalised identity of what the command claimed/created ("" if none)
}

// replyOf reduces a reply to the identity of what was claimed or created, with ids mapped to titles.
func replyOf(req core.Req, res core.Res, title func(string) string) string {
	if res.Exit != 0 {
		return ""
	}
	var m map[string]interface{}
	if json.Unmarshal(res.Out, &m) != nil {
		return ""
	}
	switch opClass(req) {
	case "claim":
		if s, _ := m["status"].(string); s == "no_ready" {
			return "no_ready"
		}
		// the reply carries the title itself (the item may be gone from the final state, e.g. pruned by the other command)
		t, _ := m["title"].(string)
		return "claimed <" + t + ">"
	case "new-task", "new-epic":
		t, _ := m["title"].(string)
		return "created <" + t + ">"
	}
	return ""
}

type serialResult struct {
	Replies []string
	Exits   []int
	Final   string
}

type serialOracle struct {
	env   *core.Env
	sc    sched.Scenario
	mu    sync.Mutex
	cache map[string]*serialResult
}

func newSerialOracle(env *core.Env, sc sched.Scenario) *serialOracle {
	return &serialOracle{env: env, sc: sc, cache: map[string]*serialResult{}}
}

// run executes the given requests one at a time on a fresh copy (real commands, in-process server).
func (o *serialOracle) run(w *core.Worker, order []core.Req, key string) *serialResult {
	o.mu.Lock()
	if r, ok := o.cache[key]; ok {
		o.mu.Unlock()
		return r
	}
	o.mu.Unlock()
	if err := o.sc.Store.Materialize(w.Proj); err != nil {
		o.env.HarnessError("materialize: %v", err)
	}
	r := &serialResult{}
	var raws []core.Res
	for _, req := range order {
		q := req
		q.Cwd = filepath.Join(w.Proj, req.Cwd)
		res := w.Run(q)
		raws = append(raws, res)
		r.Exits = append(r.Exits, res.Exit)
	}
	obs := core.ObserveW(w, w.Proj)
	tm := obs.TitleMap()
	title := func(id string) string {
		if t, ok := tm[id]; ok {
			return t
		}
		return "?" + id
	}
	for i, req := range order {
		r.Replies = append(r.Replies, replyOf(req, raws[i], title))
	}
	r.Final = obs.Norm(tm)
	o.mu.Lock()
	o.cache[key] = r
	o.mu.Unlock()
	return r
}

// composite commands are several lock sections; section-level explanations are known findings K1-K3.
// sections returns the decomposition of a request ($NEW stands for the id created by the first section).
func sections(req core.Req) []core.Req {
	cls := opClass(req)
	switch {
	case cls == "new-task" && (req.Stdin == nil || indexOf(req.Args, "--body-stdin") >= 0):
		// flags mode: --state / --claim are applied by a follow-up section
		var createArgs, followArgs []string
		i := indexOf(req.Args, "task")
		createArgs = append(createArgs, req.Args[:i+1]...)
		followArgs = append(followArgs, replaceTail(req.Args[:i+1], []string{"new", "task"}, []string{"set", "$NEW"})...)
		has := false
		rest := req.Args[i+1:]
		for k := 0; k < len(rest); k++ {
			if (rest[k] == "--state" || rest[k] == "--claim") && k+1 < len(rest) {
				followArgs = append(followArgs, rest[k], rest[k+1])
				has = true
				k++
				continue
			}
			createArgs = append(createArgs, rest[k])
		}
		if !has {
			return nil
		}
		a, b := req, req
		a.Args, b.Args = createArgs, followArgs
		b.Stdin = nil
		return []core.Req{a, b}
	case cls == "new-task" && req.Stdin != nil:
		var m map[string]interface{}
		if json.Unmarshal(*req.Stdin, &m) != nil {
			return nil
		}
		follow := map[string]interface{}{}
		create := map[string]interface{}{}
		for k, v := range m {
			switch k {
			case "state", "claim", "result_path", "result_summary":
				follow[k] = v
			default:
				create[k] = v
			}
		}
		if len(follow) == 0 {
			return nil
		}
		a := req
		a.Stdin = core.Stdin(jsonStr(create))
		b := req
		b.Args = replaceTail(req.Args, []string{"new", "task"}, []string{"set", "$NEW"})
		b.Stdin = core.Stdin(jsonStr(follow))
		return []core.Req{a, b}
	case strings.HasPrefix(cls, "set") && req.Stdin != nil:
		var m map[string]interface{}
		if json.Unmarshal(*req.Stdin, &m) != nil {
			return nil
		}
		if _, ok := m["result_path"]; !ok || len(m) <= 2 {
			return nil
		}
		res := map[string]interface{}{"result_path": m["result_path"], "result_summary": m["result_summary"]}
		rest := map[string]interface{}{}
		for k, v := range m {
			if k != "result_path" && k != "result_summary" {
				rest[k] = v
			}
		}
		a, b := req, req
		a.Stdin = core.Stdin(jsonStr(res))
		b.Stdin = core.Stdin(jsonStr(rest))
		return []core.Req{a, b}
	case cls == "sequence":
		i := indexOf(req.Args, "sequence")
		ids := req.Args[i+1:]
		if len(ids) < 3 {
			return nil
		}
		var out []core.Req
		for k := 0; k+1 < len(ids); k++ {
			s := req
			s.Args = append(append([]string{}, req.Args[:i+1]...), ids[k], ids[k+1])
			out = append(out, s)
		}
		return out
	}
	return nil
}

func indexOf(xs []string, x string) int {
	for i, y := range xs {
		if y == x {
			return i
		}
	}
	return -1
}

func replaceTail(args, old, new []string) []string {
	i := indexOf(args, old[0])
	out := append([]string{}, args[:i]...)
	out = append(out, new...)
	return append(out, args[i+len(old):]...)
}

// explain decides whether an execution is equivalent to running its successful commands one at a time in
// some order consistent with real time. Returns ("", true) if explained at command granularity,
// (site, true) if only explained at lock-section granularity of a composite command, ("", false) otherwise.
func (o *serialOracle) explain(w *core.Worker, ex *sched.Exec, outs []outcome, final string) (string, bool, string) {
	var succ []int
	for i, oc := range outs {
		if oc.OK {
			succ = append(succ, i)
		}
	}
	before := func(a, b int) bool { // a finished before b was invoked
		return ex.ExitAt[a] >= -1 && ex.StartAt[b] >= 0 && ex.ExitAt[a] < ex.StartAt[b] && ex.ExitAt[a] != -2
	}
	var tried []string
	for _, p := range permutations(len(succ)) {
		order := make([]int, len(p))
		for i, k := range p {
			order[i] = succ[k]
		}
		okRT := true
		for i := range order {
			for j := i + 1; j < len(order); j++ {
				if before(order[j], order[i]) {
					okRT = false
				}
			}
		}
		if !okRT {
			continue
		}
		reqs := make([]core.Req, len(order))
		for i, k := range order {
			reqs[i] = o.sc.Procs[k]
		}
		sr := o.run(w, reqs, fmt.Sprint("cmd", order))
		match := sr.Final == final
		for i, k := range order {
			if sr.Exits[i] != 0 || sr.Replies[i] != outs[k].Reply {
				match = false
			}
		}
		if match {
			return "", true, ""
		}
		tried = append(tried, fmt.Sprintf("order %v: replies %v exits %v final-equal=%v", order, sr.Replies, sr.Exits, sr.Final == final))
	}
	// section granularity: a composite command (several lock sections) may be split; a failed composite
	// command may have committed any prefix of its sections. Try splitting one composite command at a time
	// (so the finding is attributed to that call site), then all of them.
	type sec struct {
		proc, idx int
		req       core.Req
	}
	var composites []int
	for i := range o.sc.Procs {
		if sections(o.sc.Procs[i]) != nil {
			composites = append(composites, i)
		}
	}
	if len(composites) == 0 {
		return "", false, strings.Join(tried, "; ")
	}
	trySplit := func(split map[int]bool) bool {
		var units [][]sec
		for i := range o.sc.Procs {
			ss := sections(o.sc.Procs[i])
			if ss == nil || !split[i] {
				if outs[i].OK {
					units = append(units, []sec{{i, 0, o.sc.Procs[i]}})
				}
				continue
			}
			var u []sec
			for k, s := range ss {
				u = append(u, sec{i, k, s})
			}
			units = append(units, u)
		}
		found := false
		var rec func(pos []int, cut []int, acc []sec)
		tryOrder := func(acc []sec) {
			var reqs []core.Req
			key := "sec"
			for _, s := range acc {
				reqs = append(reqs, s.req)
				key += fmt.Sprintf(" %d.%d/%d", s.proc, s.idx, len(sections(o.sc.Procs[s.proc])))
				if len(units) > 0 && !split[s.proc] {
					key += "w"
				}
			}
			sr := o.runSections(w, reqs, key)
			if sr != nil && sr.Final == final {
				found = true
			}
		}
		rec = func(pos []int, cut []int, acc []sec) {
			if found {
				return
			}
			done := true
			for u := range units {
				if pos[u] < cut[u] {
					done = false
					na := append(append([]sec{}, acc...), units[u][pos[u]])
					np := append([]int{}, pos...)
					np[u]++
					rec(np, cut, na)
				}
			}
			if done {
				tryOrder(acc)
			}
		}
		var cuts func(u int, cut []int)
		cuts = func(u int, cut []int) {
			if found {
				return
			}
			if u == len(units) {
				rec(make([]int, len(units)), cut, nil)
				return
			}
			p := units[u][0].proc
			if outs[p].OK || len(units[u]) == 1 {
				cuts(u+1, append(append([]int{}, cut...), len(units[u])))
				return
			}
			for c := 0; c <= len(units[u]); c++ {
				cuts(u+1, append(append([]int{}, cut...), c))
			}
		}
		cuts(0, nil)
		return found
	}
	for _, c := range composites {
		if trySplit(map[int]bool{c: true}) {
			return opClass(o.sc.Procs[c]), true, ""
		}
	}
	if len(composites) > 1 {
		all := map[int]bool{}
		var names []string
		for _, c := range composites {
			all[c] = true
			names = append(names, opClass(o.sc.Procs[c]))
		}
		if trySplit(all) {
			return strings.Join(names, "+"), true, ""
		}
	}
	return "", false, strings.Join(tried, "; ")
}

// runSections runs lock sections serially; "$NEW" in a request is replaced by the id created by the previous
// `new task` section of the same chain.
func (o *serialOracle) runSections(w *core.Worker, reqs []core.Req, key string) *serialResult {
	o.mu.Lock()
	if r, ok := o.cache[key]; ok {
		o.mu.Unlock()
		return r
	}
	o.mu.Unlock()
	o.sc.Store.Materialize(w.Proj)
	newID := ""
	for _, req := range reqs {
		q := req
		q.Cwd = filepath.Join(w.Proj, req.Cwd)
		q.Args = append([]string{}, req.Args...)
		for i, a := range q.Args {
			if a == "$NEW" {
				q.Args[i] = newID
			}
		}
		res := w.Run(q)
		if opClass(q) == "new-task" && res.Exit == 0 {
			newID = idOf(res)
		}
	}
	obs := core.ObserveW(w, w.Proj)
	r := &serialResult{Final: obs.Norm(obs.TitleMap())}
	o.mu.Lock()
	o.cache[key] = r
	o.mu.Unlock()
	return r
}

// ---------------------------------------------------------------------------------------------
// running a scenario under the explorer

type schedStats struct {
	Scenarios      int
	Executions     int64
	BoundCompleted int
	Exhaustive     bool
	Outcomes       *counter
	Samples        *sampleSet
	mu             sync.Mutex
	PerScenario    map[string]interface{}
}

func newSchedStats() *schedStats {
	return &schedStats{BoundCompleted: 99, Exhaustive: true, Outcomes: newCounter(), Samples: &sampleSet{max: 6}, PerScenario: map[string]interface{}{}}
}

type schedReplay struct {
	Kind     string            `json:"kind"` // "schedule"
	Check    string            `json:"check"`
	Scenario string            `json:"scenario"`
	Store    map[string][]byte `json:"store"`
	Procs    []core.Req        `json:"procs"`
	Choices  []int             `json:"choices"`
	Schedule string            `json:"schedule"`
	Shell    []string          `json:"shell"`
	Note     string            `json:"note"`
}

func mkSchedReplay(check string, sc sched.Scenario, ex *sched.Exec, note string) schedReplay {
	r := schedReplay{Kind: "schedule", Check: check, Scenario: sc.Name, Store: sc.Store, Procs: sc.Procs, Choices: ex.Choices, Schedule: ex.Schedule(), Note: note}
	for i, p := range sc.Procs {
		r.Shell = append(r.Shell, fmt.Sprintf("p%d: %s", i, p.Shell()))
	}
	return r
}

// schedWorkerDirs gives each explorer worker a private directory.
func schedWorkerDirs(env *core.Env, n int) []string {
	var dirs []string
	for i := 0; i < n; i++ {
		dirs = append(dirs, filepath.Join(env.Scratch, fmt.Sprintf("sched%d", i)))
	}
	return dirs
}

// exploreScenario runs iterative preemption bounding 0..maxBound and calls judge for every execution.
// judge returns a violation signature ("" = fine) and detail; violations are re-run 5x before being reported.
func exploreScenario(env *core.Env, st *schedStats, check string, sc sched.Scenario, maxBound int, snapshots bool,
	judge func(w *core.Worker, ex *sched.Exec) (sig, detail string)) {
	exploreScenarioOn(env, st, check, sc, maxBound, snapshots, judge, 0, env.Workers)
}

type schedJob struct {
	Sc        sched.Scenario
	Bound     int
	Snapshots bool
	Judge     func(w *core.Worker, ex *sched.Exec) (sig, detail string)
}

// exploreMany explores several scenarios at a time (lanes), each with its own share of the workers:
// small scenarios have a sequential start-up and a tail per bound that would otherwise leave most cores idle.
func exploreMany(env *core.Env, st *schedStats, check string, jobs []schedJob, lanes int) {
	if lanes < 1 {
		lanes = 1
	}
	per := env.Workers / lanes
	if per < 1 {
		per = 1
	}
	var mu sync.Mutex
	next := 0
	var wg sync.WaitGroup
	for l := 0; l < lanes; l++ {
		wg.Add(1)
		go func(l int) {
			defer wg.Done()
			for {
				mu.Lock()
				i := next
				next++
				mu.Unlock()
				if i >= len(jobs) {
					return
				}
				if !env.TimeLeft() {
					st.mu.Lock()
					st.Exhaustive = false
					st.mu.Unlock()
					continue
				}
				j := jobs[i]
				exploreScenarioOn(env, st, check, j.Sc, j.Bound, j.Snapshots, j.Judge, l*per, per)
			}
		}(l)
	}
	wg.Wait()
}

func exploreScenarioOn(env *core.Env, st *schedStats, check string, sc sched.Scenario, maxBound int, snapshots bool,
	judge func(w *core.Worker, ex *sched.Exec) (sig, detail string), firstDir, nWorkers int) {
	ctl := &sched.Controller{Bin: env.Verif, Snapshots: snapshots}
	dirs := schedWorkerDirs(env, firstDir+nWorkers)[firstDir:]
	var reported atomic.Bool
	// judgeAndReport: one complete execution through the judge; a failing one is confirmed by replaying its schedule
	judgeAndReport := func(ex *sched.Exec) {
		wk := workerFor(env, ex)
		sig, detail := judge(wk, ex)
		releaseWorker(wk)
		if sig == "" || env.ViolationSeen(sig) {
			return
		}
		confirmMu <- struct{}{}
		defer func() { <-confirmMu }()
		if env.ViolationSeen(sig) {
			return
		}
		if note, ok := confirmSchedule(env, ctl, sc, ex, sig, judge); ok {
			reported.Store(true)
			env.Violation(sig, fmt.Sprintf("scenario %s; schedule: %s; %s%s", sc.Name, ex.Schedule(), detail, note), mkSchedReplay(check, sc, ex, detail))
		}
	}
	// The commands did not repeat their own steps under an identical choice sequence. Before calling that a harness
	// fault, look at what they do: the default schedule a few more times, each run judged like any other.
	probe := func() bool {
		for k := 0; k < 12 && !reported.Load(); k++ {
			if re, err := ctl.Run(filepath.Join(env.Scratch, "schedprobe"), sc, nil, nil); err == nil {
				judgeAndReport(re)
			}
		}
		return reported.Load()
	}
	// determinism proof: the default schedule twice
	a, err := ctl.Run(dirs[0], sc, nil, nil)
	if err != nil {
		env.HarnessError("scenario %s: %v", sc.Name, err)
	}
	b, err := ctl.Run(dirs[0], sc, a.Choices, a.Steps)
	if err != nil || a.Schedule() != b.Schedule() {
		judgeAndReport(a)
		if probe() {
			env.Logf("scenario %s: not explored - the commands do not repeat their steps under one schedule (%v); a violation of this scenario is reported", sc.Name, err)
			st.mu.Lock()
			st.Scenarios++
			st.Exhaustive = false
			st.PerScenario[sc.Name] = map[string]interface{}{"processes": len(sc.Procs), "executions": 2, "bound_completed": -1, "note": "steps differ under one schedule; violation reported"}
			st.mu.Unlock()
			return
		}
		if err != nil {
			env.HarnessError("scenario %s not deterministic under replay: %v", sc.Name, err)
		}
		env.HarnessError("scenario %s: same choices, different point sequences:\n%s\n%s", sc.Name, a.Schedule(), b.Schedule())
	}
	var execs int64
	completed := -1
	for bound := 0; bound <= maxBound; bound++ {
		if !env.TimeLeft() {
			break
		}
		if os.Getenv("VERIF_UNBOUNDED_ONLY") != "" && len(sc.Procs) == 2 { // experiments: sleep-set mode alone
			completed = maxBound
			break
		}
		x := &sched.Explorer{Ctl: ctl, Scenario: sc, Bound: bound, Workers: nWorkers, Dirs: dirs, Deadline: env.Deadline}
		x.Check = func(ex *sched.Exec) {
			if bound > 0 && ex.Preempts < bound {
				return // already judged at a lower bound
			}
			judgeAndReport(ex)
		}
		x.Explore()
		if x.Err != nil && strings.Contains(x.Err.Error(), "schedule diverged") {
			if probe() {
				env.Logf("scenario %s bound %d: exploration stopped (%v) - the commands do not repeat their steps under one schedule; a violation of this scenario is reported", sc.Name, bound, x.Err)
				break
			}
		}
		if x.Err != nil {
			env.HarnessError("scenario %s bound %d: %v", sc.Name, bound, x.Err)
		}
		execs += x.Executions
		if !x.Complete {
			break
		}
		completed = bound
	}
	// thorough tier, two processes: all interleavings modulo independence (sleep sets), no preemption bound
	var unb map[string]interface{}
	if (env.Thorough() || os.Getenv("VERIF_UNBOUNDED") != "") && len(sc.Procs) == 2 && env.TimeLeft() {
		x := &sched.Explorer{Ctl: ctl, Scenario: sc, Workers: nWorkers, Dirs: dirs, Deadline: env.Deadline}
		x.Check = func(ex *sched.Exec) {
			judgeAndReport(ex)
		}
		x.ExploreUnbounded(30000)
		if x.Err != nil {
			env.HarnessError("scenario %s unbounded: %v", sc.Name, x.Err)
		}
		execs += x.Executions
		unb = map[string]interface{}{"complete": x.Complete, "executions": x.Executions, "sleep_set_blocked_runs": x.Blocked}
	}
	st.mu.Lock()
	st.Scenarios++
	st.Executions += execs
	if completed < st.BoundCompleted {
		st.BoundCompleted = completed
	}
	if completed < maxBound {
		st.Exhaustive = false
	}
	per := map[string]interface{}{"processes": len(sc.Procs), "points_default_schedule": len(a.Steps), "executions": execs, "bound_completed": completed}
	if unb != nil {
		per["unbounded_sleep_sets"] = unb
	}
	st.PerScenario[sc.Name] = per
	st.mu.Unlock()
	atomic.AddInt64(&totalSchedExecs, execs)
}

var totalSchedExecs int64

// a small pool of server workers for judging executions (explorer workers are plain goroutines)
var judgePool chan *core.Worker
var judgeOnce sync.Once

func workerFor(env *core.Env, _ *sched.Exec) *core.Worker {
	judgeOnce.Do(func() {
		judgePool = make(chan *core.Worker, env.Workers)
		for i := 0; i < env.Workers; i++ {
			judgePool <- env.WorkerN(i)
		}
	})
	return <-judgePool
}

func releaseWorker(w *core.Worker) { judgePool <- w }

// logIntact: the log is a sequence of whole JSON lines.
func logIntact(st core.Store) string {
	log := st.Log()
	if len(log) > 0 && log[len(log)-1] != '\n' {
		return "log does not end in a newline"
	}
	if _, ok := core.ParseLog(log); !ok {
		return "a complete line of the log is not a JSON event"
	}
	for k := range st {
		if strings.HasSuffix(k, ".tmp") {
			return "temp file left behind: " + k
		}
	}
	return ""
}

func sortedCopy(xs []string) []string {
	out := append([]string{}, xs...)
	sort.Strings(out)
	return out
}

// replay support for schedules
func init() {
	replayers["schedule"] = func(env *core.Env, raw json.RawMessage) bool {
		var r schedReplay
		if err := json.Unmarshal(raw, &r); err != nil {
			env.HarnessError("bad schedule replay: %v", err)
		}
		sc := sched.Scenario{Name: r.Scenario, Store: r.Store, Procs: r.Procs}
		fn, ok := schedJudges[r.Check]
		if !ok {
			env.HarnessError("no judge registered for %q", r.Check)
		}
		ctl := &sched.Controller{Bin: env.Verif, Snapshots: true}
		ex, err := ctl.Run(filepath.Join(env.Scratch, "schedreplay"), sc, r.Choices, nil)
		if err != nil {
			fmt.Println("replay: schedule no longer applies:", err)
			return false
		}
		for i, res := range ex.Results {
			fmt.Printf("  p%d %s\n     -> %s\n", i, sc.Procs[i].Shell(), res)
		}
		fmt.Println("  schedule:", ex.Schedule())
		w := env.W0()
		sig, detail := fn(env, sc)(w, ex)
		fmt.Printf("  verdict: %q %s\n", sig, detail)
		return sig != ""
	}
}

// schedJudges builds the judge of a check for a scenario (used by replay).
var schedJudges = map[string]func(env *core.Env, sc sched.Scenario) func(w *core.Worker, ex *sched.Exec) (string, string){}

// confirmSchedule replays a failing schedule. Normally the same schedule must fail the same way five times in a row.
// If a replay takes different steps under the identical choice sequence, the commands themselves are not a function of
// the log and the schedule (nothing in the harness can cause that: the points are the commands' own); the violating
// execution was still observed on the real code, so it is confirmed when five replays that do follow the schedule fail
// the same way (at most 60 attempts), and the report says so. A replay that follows the schedule and does not fail the
// same way leaves the candidate unconfirmed, as before.
func confirmSchedule(env *core.Env, ctl *sched.Controller, sc sched.Scenario, ex *sched.Exec, sig string,
	judge func(w *core.Worker, ex *sched.Exec) (sig, detail string)) (note string, ok bool) {
	same, strayed := 0, 0
	for k := 0; k < 60 && same < 5; k++ {
		re, err := ctl.Run(filepath.Join(env.Scratch, "schedconfirm"), sc, ex.Choices, ex.Steps) // serialised by confirmMu
		if err != nil {
			strayed++
			continue
		}
		wk := workerFor(env, re)
		s2, _ := judge(wk, re)
		releaseWorker(wk)
		if s2 != sig {
			env.Logf("UNCONFIRMED schedule (fails %q then %q): %s", sig, s2, ex.Schedule())
			unconfirmed.Add(1)
			return "", false
		}
		same++
	}
	if same < 5 {
		if same == 0 {
			env.HarnessError("replay of a failing schedule diverged %d times out of %d (scenario %s, %s)", strayed, strayed, sc.Name, sig)
		}
		env.Logf("UNCONFIRMED schedule (%q reproduced %d times, %d replays took other steps): %s", sig, same, strayed, ex.Schedule())
		unconfirmed.Add(1)
		return "", false
	}
	if strayed > 0 {
		note = fmt.Sprintf(" [%d further replays of this schedule took different steps: what the commands do depends on something besides the log and the schedule]", strayed)
	}
	return note, true
}
