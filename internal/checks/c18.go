package checks

import (
	"encoding/json"
	"fmt"
	"path/filepath"
	"sort"
	"strings"
	"sync/atomic"

	"verif/internal/core"
)

func init() { Registry["C18"] = runC18 }

// one-task log whose title names the store level and file it lives in
func c18Log(title string, n int64) []byte {
	l := newSynLog()
	l.Create(SynItem{ID: core.IDFor(8000 + n), Title: title})
	return l.Bytes()
}

type c18Layout struct {
	Ergo    [3]int // per level: 0 absent, 1 directory (store), 2 regular file
	Present int    // bitmask plans|events|lock for the store the command is expected to hit (7 = all)
}

var c18Levels = []string{"", "a", "a/b"}

func (l c18Layout) store() core.Store {
	st := core.Store{"D:a/b/c": nil}
	for lv, kind := range l.Ergo {
		base := c18Levels[lv]
		p := func(s string) string { return filepath.Join(base, s) }
		switch kind {
		case 1:
			st["D:"+p(".ergo")] = nil
			st[p(".ergo/plans.jsonl")] = c18Log(fmt.Sprintf("L%d-plans", lv), int64(lv*2))
			st[p(".ergo/lock")] = nil
		case 2:
			st[p(".ergo")] = []byte("i am a file\n")
		}
	}
	return st
}

// withPresence rewrites the files of the store at level lv according to the bitmask.
func withPresence(st core.Store, lv, mask int) core.Store {
	c := st.Clone()
	base := c18Levels[lv]
	p := func(s string) string { return filepath.Join(base, s) }
	delete(c, p(".ergo/plans.jsonl"))
	delete(c, p(".ergo/events.jsonl"))
	delete(c, p(".ergo/lock"))
	if mask&1 != 0 {
		c[p(".ergo/plans.jsonl")] = c18Log(fmt.Sprintf("L%d-plans", lv), int64(lv*2))
	}
	if mask&2 != 0 {
		c[p(".ergo/events.jsonl")] = c18Log(fmt.Sprintf("L%d-events", lv), int64(lv*2+1))
	}
	if mask&4 != 0 {
		c[p(".ergo/lock")] = nil
	}
	return c
}

type c18Spelling struct {
	Name string
	Cwd  string   // relative to the tree root
	Dir  []string // extra args (--dir ...), may contain @ABS@ for the absolute tree root
}

// spellings of "start in directory S" (S relative to the tree root, "" = root).
func c18Spellings(S string, hasErgoDir bool) []c18Spelling {
	abs := func(rel string) string { return filepath.Join("@ABS@", rel) }
	out := []c18Spelling{
		{"cwd", S, nil},
		{"--dir-absolute", "a/b/c", []string{"--dir", abs(S)}},
		{"--dir-dot", S, []string{"--dir", "."}},
		{"--dir-abs-trailing-slash", "", []string{"--dir", abs(S) + "/"}},
	}
	if S != "a/b" {
		child := filepath.Join(S, map[string]string{"": "a", "a": "b"}[S])
		out = append(out, c18Spelling{"--dir-dotdot", child, []string{"--dir", ".."}})
		// the same directory spelled absolutely through its child (which may be a nested project of its own)
		out = append(out, c18Spelling{"--dir-abs-child-dotdot", "a/b/c", []string{"--dir", abs(child) + "/.."}})
		out = append(out, c18Spelling{"--dir-abs-child-dotdot-slash", "", []string{"--dir", abs(child) + "/../"}})
		out = append(out, c18Spelling{"--dir-abs-dot-segments", "a/b/c", []string{"--dir", abs(child) + "/./../."}})
	}
	if S != "" {
		parent := filepath.Dir(S)
		if parent == "." {
			parent = ""
		}
		base := filepath.Base(S)
		out = append(out, c18Spelling{"--dir-relative-name", parent, []string{"--dir", base}})
		out = append(out, c18Spelling{"--dir-relative-dotslash", parent, []string{"--dir", "./" + base + "/../" + base}})
	}
	if hasErgoDir {
		out = append(out, c18Spelling{"--dir-the-.ergo-dir-absolute", "a/b/c", []string{"--dir", abs(filepath.Join(S, ".ergo"))}})
		out = append(out, c18Spelling{"--dir-the-.ergo-dir-relative", S, []string{"--dir", ".ergo"}})
	}
	return out
}

func runC18(env *core.Env) {
	type job struct {
		layout c18Layout
		start  int // level of the start directory
		sp     c18Spelling
	}
	var jobs []job
	for e0 := 0; e0 < 3; e0++ {
		for e1 := 0; e1 < 3; e1++ {
			for e2 := 0; e2 < 3; e2++ {
				for start := 0; start < 3; start++ {
					l := c18Layout{Ergo: [3]int{e0, e1, e2}, Present: 5}
					for _, sp := range c18Spellings(c18Levels[start], l.Ergo[start] == 1) {
						jobs = append(jobs, job{l, start, sp})
					}
				}
			}
		}
	}
	// file-presence combinations on the store that is hit: a single store at level 1, and the same store nested inside
	// an outer project that does have a log (the inner one must still win, whatever files it holds)
	for mask := 0; mask < 8; mask++ {
		for _, ergo := range [][3]int{{0, 1, 0}, {1, 1, 0}, {1, 1, 1}} {
			for start := 1; start < 3; start++ {
				if ergo[2] == 1 && start == 2 {
					continue // the level-2 store would be the nearest one
				}
				l := c18Layout{Ergo: ergo, Present: mask}
				for _, sp := range c18Spellings(c18Levels[start], start == 1) {
					jobs = append(jobs, job{l, start, sp})
				}
			}
		}
	}
	cmds := []core.Req{
		core.R("", "--json", "where"), core.R("", "--json", "list", "--all"), core.R("", "--json", "list", "--epics"),
		core.R("", "--json", "new", "task").In(`{"title":"created"}`), core.R("", "--json", "new", "task", "--title", "created-by-flag"),
		core.R("", "--json", "claim", "--agent", "z"), core.R("", "--json", "prune", "--yes"), core.R("", "--json", "prune"),
		core.R("", "--json", "compact"), core.R("", "--json", "plan").In(`{"title":"P","tasks":[{"title":"pa"}]}`),
	}
	conf := newConformer(len(jobs)*len(cmds)/280+1, 300)
	var evals int64
	classes := newCounter()
	samples := &sampleSet{max: 8}
	env.Parallel(len(jobs), func(w *core.Worker, i int) {
		if !env.TimeLeft() {
			return
		}
		j := jobs[i]
		tree := j.layout.store()
		// expected store: nearest enclosing .ergo of the start directory
		expLevel, expErr := -1, ""
		for lv := j.start; lv >= 0; lv-- {
			if j.layout.Ergo[lv] == 1 {
				expLevel = lv
				break
			}
			if j.layout.Ergo[lv] == 2 {
				expErr = "not a directory"
				break
			}
		}
		if expLevel >= 0 && j.layout.Present != 5 {
			tree = withPresence(tree, expLevel, j.layout.Present)
		}
		root := w.Proj
		desc := fmt.Sprintf(".ergo per level %v (0 none,1 dir,2 file), files=%03b(lock,events,plans), start=%q, spelling=%s", j.layout.Ergo, j.layout.Present, c18Levels[j.start], j.sp.Name)
		for _, c := range cmds {
			tree.Materialize(root)
			req := c
			var args []string
			for _, a := range j.sp.Dir {
				args = append(args, strings.ReplaceAll(a, "@ABS@", root))
			}
			req.Args = append(append([]string{}, c.Args[:1]...), append(args, c.Args[1:]...)...) // --json --dir X <cmd...>
			req.Cwd = filepath.Join(root, j.sp.Cwd)
			req.RandBase = 40
			res := w.Run(req)
			atomic.AddInt64(&evals, 1)
			conf.offer(root, tree, req, res)
			after, _ := core.Snapshot(root)
			rel := req
			rel.Cwd = j.sp.Cwd
			rel.Args = append(append([]string{}, c.Args[:1]...), append(append([]string{}, j.sp.Dir...), c.Args[1:]...)...)
			bad := func(kind, detail string) {
				tr := mkTrace(tree, desc, nil, Assert{Kind: "exit_zero", Step: 0})
				tr.Steps = []core.Req{rel}
				tr.Shell = []string{"cd " + j.sp.Cwd + " && " + rel.Shell()}
				tr.FailIf = nil
				sig := fmt.Sprintf("C18 kind=%s spelling=%s cmd=%s", kind, j.sp.Name, opClass(c))
				if env.ViolationSeen(sig) {
					return
				}
				// confirm with a spawned production binary
				tree.Materialize(root)
				sres := w.Spawn(core.Req{Cwd: req.Cwd, Args: req.Args, Stdin: req.Stdin, RandBase: -1})
				if (sres.Exit == 0) != (res.Exit == 0) {
					env.Logf("UNCONFIRMED %s: server exit %d, spawned exit %d", sig, res.Exit, sres.Exit)
					unconfirmed.Add(1)
					return
				}
				env.Violation(sig, desc+": `"+rel.Shell()+"` (cwd "+j.sp.Cwd+"): "+detail, tr)
			}
			if res.Panic || res.Timeout {
				bad("crash", res.String())
				continue
			}
			changed := changedDirs(tree, after)
			cls := fmt.Sprintf("exp=%d/%s exit=%d", expLevel, expErr, res.Exit)
			classes.inc(opClass(c) + " " + j.sp.Name + " " + cls)
			if expLevel < 0 {
				if res.Exit == 0 {
					bad("command-succeeds-without-a-store", "no enclosing .ergo directory, yet exit 0: "+clipS(string(res.Out), 120))
				}
				if len(changed) > 0 {
					bad("writes-without-a-store", fmt.Sprintf("changed %v", changed))
				}
				continue
			}
			expDir := filepath.Join(c18Levels[expLevel], ".ergo")
			for _, d := range changed {
				if d != expDir {
					bad("wrote-outside-the-nearest-store", fmt.Sprintf("nearest enclosing store is %s but files under %s changed", expDir, d))
				}
			}
			if res.Exit != 0 {
				bad("store-not-found-or-command-fails", fmt.Sprintf("nearest enclosing store is %s; exit %d: %s", expDir, res.Exit, clipS(string(res.Err), 200)))
				continue
			}
			// which log the command used
			wantTitle := fmt.Sprintf("L%d-plans", expLevel)
			logFile := "plans.jsonl"
			if j.layout.Present != 5 {
				switch {
				case j.layout.Present&1 != 0:
				case j.layout.Present&2 != 0:
					wantTitle, logFile = fmt.Sprintf("L%d-events", expLevel), "events.jsonl"
				default:
					wantTitle = ""
				}
			}
			switch opClass(c) {
			case "where":
				var m map[string]string
				json.Unmarshal(res.Out, &m)
				if m["ergo_dir"] != filepath.Join(root, expDir) || m["repo_dir"] != filepath.Join(root, c18Levels[expLevel]) {
					bad("where-reports-another-store", fmt.Sprintf("where says %v, nearest enclosing store is %s", m, expDir))
				}
			case "list":
				if strings.Contains(strings.Join(c.Args, " "), "--all") {
					var items []core.Item
					json.Unmarshal(res.Out, &items)
					var titles []string
					for _, it := range items {
						titles = append(titles, it.Title)
					}
					sort.Strings(titles)
					want := []string{}
					if wantTitle != "" {
						want = []string{wantTitle}
					}
					if strings.Join(titles, ",") != strings.Join(want, ",") {
						bad("reads-another-log", fmt.Sprintf("list shows %v, expected %v (the store's %s)", titles, want, logFile))
					}
				}
			case "new-task", "claim", "plan", "compact", "prune":
				// the mutation must land in the same log file that reads use; no second log file may appear
				for k := range after {
					if strings.HasPrefix(k, expDir+"/") && !strings.HasPrefix(k, "D:") {
						if _, was := tree[k]; !was && k != filepath.Join(expDir, "lock") && !(wantTitle == "" && k == filepath.Join(expDir, "plans.jsonl")) {
							bad("second-log-file-created", fmt.Sprintf("%s appeared; the store's log is %s", k, logFile))
						}
					}
				}
				if opClass(c) == "new-task" {
					tl := string(after[filepath.Join(expDir, logFile)])
					if wantTitle != "" && (!strings.Contains(tl, "created") || !strings.Contains(tl, wantTitle)) {
						bad("mutation-in-another-log", fmt.Sprintf("the new task is not in %s next to %s", logFile, wantTitle))
					}
				}
				if _, ok := after[filepath.Join(expDir, "lock")]; !ok && opClass(c) != "compact" {
					bad("lock-file-not-recreated", "after a mutating command the lock file is missing")
				}
			}
		}
		// init on an existing store: changes no item, hides none, creates/truncates/shadows no log
		if expLevel == j.start && j.sp.Name == "cwd" {
			absStart := filepath.Join(root, c18Levels[j.start])
			for _, form := range [][]string{{"--json", "init"}, {"--json", "init", "."}, {"--json", "init", absStart},
				// --dir in every spelling the other commands accept, including the .ergo directory itself
				{"--json", "--dir", ".", "init"}, {"--json", "--dir", absStart, "init"}, {"--json", "--dir", ".ergo", "init"},
				{"--json", "--dir", filepath.Join(absStart, ".ergo"), "init"}, {"--json", "init", "--dir", ".ergo"}} {
				tree.Materialize(root)
				cwd := filepath.Join(root, c18Levels[j.start])
				before := core.ObserveW(w, cwd)
				res := w.Run(core.Req{Cwd: cwd, Args: form, RandBase: -1})
				atomic.AddInt64(&evals, 1)
				afterObs := core.ObserveW(w, cwd)
				after, _ := core.Snapshot(root)
				tr := mkTrace(tree, desc, nil)
				tr.Steps = []core.Req{{Cwd: c18Levels[j.start], Args: form, RandBase: -1}}
				tr.FailIf = []Assert{{Kind: "raw_obs_differs", Step: 1, Other: 0}}
				if res.Exit != 0 {
					report(env, "C18 kind=init-fails-on-existing-store", desc+": "+res.String(), tr)
					continue
				}
				if afterObs.Raw() != before.Raw() {
					sig := fmt.Sprintf("C18 kind=init-changes-or-hides-items files=%03b", j.layout.Present)
					if !env.ViolationSeen(sig) {
						env.Violation(sig, desc+": `ergo "+strings.Join(form, " ")+"` on an existing store changed what readers see: "+firstDiff(before.Raw(), afterObs.Raw()), tr)
					}
				}
				for k, v := range tree {
					if strings.HasSuffix(k, ".jsonl") && string(after[k]) != string(v) {
						report(env, "C18 kind=init-alters-a-log", desc+": "+k+" changed", tr)
					}
				}
				// init on an existing store creates nothing but (at most) the store's own missing lock / log file: no second store
				for k := range after {
					if _, was := tree[k]; was || strings.HasPrefix(k, "D:") {
						continue
					}
					if dir := filepath.Dir(k); dir != filepath.Join(c18Levels[j.start], ".ergo") {
						sig := "C18 kind=init-creates-files-outside-the-store"
						if !env.ViolationSeen(sig) {
							tr2 := tr
							tr2.FailIf = []Assert{{Kind: "exit_zero", Step: 1}}
							env.Violation(sig, desc+": `ergo "+strings.Join(form, " ")+"` on an existing store created "+k, tr2)
						}
					}
				}
				// and every spelling of the start directory still reaches the same items afterwards
				for _, sp := range [][]string{{"--dir", ".ergo"}, {"--dir", filepath.Join(absStart, ".ergo")}, {"--dir", "."}} {
					r := w.Run(core.Req{Cwd: cwd, Args: append(append([]string{"--json"}, sp...), "list", "--all"), RandBase: -1})
					b := w.Run(core.Req{Cwd: cwd, Args: []string{"--json", "list", "--all"}, RandBase: -1})
					if r.Exit != b.Exit || string(r.Out) != string(b.Out) {
						sig := "C18 kind=init-hides-the-store-for-a-spelling"
						if !env.ViolationSeen(sig) {
							tr2 := tr
							tr2.Steps = append(append([]core.Req{}, tr.Steps...), core.Req{Cwd: c18Levels[j.start], Args: append(append([]string{"--json"}, sp...), "list", "--all"), RandBase: -1})
							tr2.FailIf = []Assert{{Kind: "exit_zero", Step: 1}}
							env.Violation(sig, desc+": after `ergo "+strings.Join(form, " ")+"`, `ergo --json "+strings.Join(sp, " ")+" list --all` prints "+clipS(string(r.Out), 80)+" but plain `list --all` prints "+clipS(string(b.Out), 80), tr2)
						}
					}
				}
			}
		}
		if i%150 == 0 {
			samples.add(map[string]interface{}{"configuration": desc, "expected_store_level": expLevel})
		}
	})
	seqCov := c18Sequences(env)
	linkCov := c18Symlinked(env)
	validated := conf.run(env)
	env.Finish("model_checking", map[string]interface{}{
		"both_files_sequences": seqCov,
		"symlinked_store":      linkCov,
		"states":               len(jobs), "transitions": evals, "traces_validated_against_impl": validated, "samples": samples.list,
		"evaluations": evals, "distinct_nontrivial": classes.len(), "exhaustive": env.TimeLeft(), "configurations": len(jobs),
		"rule":                   "all 27 layouts of a 3-level tree (.ergo absent / directory / regular file per level) x start directory at every level x up to 12 spellings (cwd, --dir absolute, absolute with trailing slash, '.', '..', absolute through the child with '/..', '/../', '/./../.', relative name, './x/../x', the .ergo directory itself absolute and relative) + all 8 presence combinations of {plans.jsonl, events.jsonl, lock} x 10 commands, plus 3 forms of init on every existing store; distinct = (command, spelling, expected store, exit)",
		"unconfirmed_candidates": unconfirmed.Load(),
	}, []string{"the checker computes the nearest enclosing .ergo from the layout; scratch directories have no .ergo above the tree root"})
}

// changedDirs lists the directories (relative) that contain a file that was created, removed or modified.
func changedDirs(before, after core.Store) []string {
	set := map[string]bool{}
	for k, v := range after {
		if strings.HasPrefix(k, "D:") {
			continue
		}
		if b, ok := before[k]; !ok || string(b) != string(v) {
			set[filepath.Dir(k)] = true
		}
	}
	for k := range before {
		if strings.HasPrefix(k, "D:") {
			continue
		}
		if _, ok := after[k]; !ok {
			set[filepath.Dir(k)] = true
		}
	}
	var out []string
	for d := range set {
		out = append(out, d)
	}
	sort.Strings(out)
	return out
}

// c18Sequences: a store holding both log files must behave, over every command sequence, exactly like the same
// store without the file it does not use - the other file is never read, never written and never becomes "the" log.
// Which file the store uses is taken from the implementation (a probing `new task`), not assumed.
func c18Sequences(env *core.Env) map[string]interface{} {
	mk := func(title string, n int64, done bool) []byte {
		l := newSynLog()
		id := core.IDFor(8100 + n)
		l.Create(SynItem{ID: id, Title: title})
		if done {
			l.State(id, "done")
		}
		return l.Bytes()
	}
	type cfg struct {
		name         string
		plans, event []byte
	}
	cfgs := []cfg{
		{"both-non-empty", mk("in-plans", 0, false), mk("in-events", 1, false)},
		{"both-non-empty-plans-all-done", mk("in-plans", 0, true), mk("in-events", 1, false)},
		{"plans-empty-events-non-empty", []byte{}, mk("in-events", 1, false)},
		{"plans-non-empty-events-empty", mk("in-plans", 0, false), []byte{}},
		{"both-non-empty-events-all-done", mk("in-plans", 0, false), mk("in-events", 1, true)},
	}
	ops := []string{"new", "done-first", "prune", "compact", "claim", "plan"}
	depth := 4
	if env.Thorough() {
		depth = 5
	}
	var paths [][]int
	var rec func(p []int)
	rec = func(p []int) {
		if len(p) == depth {
			paths = append(paths, append([]int{}, p...))
			return
		}
		for i := range ops {
			rec(append(p, i))
		}
	}
	rec(nil)
	type job struct {
		c    cfg
		path []int
	}
	var jobs []job
	for _, c := range cfgs {
		for _, p := range paths {
			jobs = append(jobs, job{c, p})
		}
	}
	var steps, compared int64
	used := newCounter()
	env.Parallel(len(jobs), func(w *core.Worker, i int) {
		if !env.TimeLeft() {
			return
		}
		j := jobs[i]
		both := core.Store{".ergo/plans.jsonl": j.c.plans, ".ergo/events.jsonl": j.c.event, ".ergo/lock": nil}
		// probe: which file does a mutation land in?
		both.Materialize(w.Proj)
		w.Run(core.Req{Cwd: w.Proj, Args: []string{"--json", "new", "task"}, RandBase: 30}.In(`{"title":"probe"}`))
		probed, _ := core.Snapshot(w.Proj)
		usedFile := ""
		for _, f := range []string{".ergo/plans.jsonl", ".ergo/events.jsonl"} {
			if string(probed[f]) != string(both[f]) {
				usedFile += f
			}
		}
		if usedFile != ".ergo/plans.jsonl" && usedFile != ".ergo/events.jsonl" {
			report(env, "C18 kind=both-files-mutation-lands-in-no-single-log cfg="+j.c.name, "new task changed: "+usedFile, mkTrace(both, j.c.name, []core.Req{core.R("", "--json", "new", "task").In(`{"title":"probe"}`)}))
			return
		}
		used.inc(j.c.name + " uses " + usedFile)
		other := ".ergo/plans.jsonl"
		if usedFile == other {
			other = ".ergo/events.jsonl"
		}
		single := both.Clone()
		delete(single, other)
		cur := map[string]core.Store{"both": both, "single": single}
		var trace []core.Req
		for si, oi := range j.path {
			var obs [2]core.Obs
			var reqShown core.Req
			for k, name := range []string{"both", "single"} {
				st := cur[name]
				st.Materialize(w.Proj)
				var req core.Req
				switch ops[oi] {
				case "new":
					req = core.R("", "--json", "new", "task").In(`{"title":"n"}`)
				case "done-first":
					o := core.ObserveW(w, w.Proj)
					target := "ZZZZZZ"
					for _, it := range o.All {
						if it.State != "done" {
							target = it.ID
							break
						}
					}
					req = core.R("", "--json", "set", target).In(`{"state":"done"}`)
				case "prune":
					req = core.R("", "--json", "prune", "--yes")
				case "compact":
					req = core.R("", "--json", "compact")
				case "claim":
					req = core.R("", "--json", "claim", "--agent", "z")
				case "plan":
					req = core.R("", "--json", "plan").In(`{"title":"P","tasks":[{"title":"pa"}]}`)
				}
				reqShown = req
				req.Cwd = w.Proj
				req.RandBase = int64(50 + 10*si)
				w.Run(req)
				atomic.AddInt64(&steps, 1)
				obs[k] = core.ObserveW(w, w.Proj)
				after, _ := core.Snapshot(w.Proj)
				if name == "both" && string(after[other]) != string(both[other]) {
					report(env, "C18 kind=both-files-other-log-written cfg="+j.c.name+" cmd="+opClass(req), fmt.Sprintf("%s: the store uses %s, yet %s changed after %v", j.c.name, usedFile, other, ops[oi]),
						mkTrace(both, j.c.name, append(append([]core.Req{}, trace...), reqShown), Assert{Kind: "exit_zero", Step: len(trace) + 1}))
					return
				}
				if name == "single" {
					if _, ok := after[other]; ok {
						report(env, "C18 kind=second-log-file-created-in-sequence cfg="+j.c.name+" cmd="+opClass(req), fmt.Sprintf("%s appeared after %v", other, ops[oi]),
							mkTrace(single, j.c.name, append(append([]core.Req{}, trace...), reqShown), Assert{Kind: "exit_zero", Step: len(trace) + 1}))
						return
					}
				}
				cur[name] = after
			}
			trace = append(trace, reqShown)
			atomic.AddInt64(&compared, 1)
			if a, b := obs[0].Norm(nil), obs[1].Norm(nil); a != b {
				var lit []core.Req // the literal requests incl. the scripted ids
				for k, r := range trace {
					r.RandBase = int64(50 + 10*k)
					lit = append(lit, r)
				}
				tr := mkTrace(both, j.c.name+": alt branch = same commands on the store without "+other, lit)
				tr.Alt = tr.Steps
				tr.AltSt = single
				tr.FailIf = []Assert{{Kind: "alt_differs", Step: len(trace)}}
				report(env, "C18 kind=both-files-store-switches-log cfg="+j.c.name+" after="+ops[oi], fmt.Sprintf("%s: after %v the store with both files reads differently from the same store without %s: %s", j.c.name, opsOf(ops, j.path[:si+1]), other, firstDiff(b, a)), tr)
				return
			}
		}
	})
	return map[string]interface{}{"configurations": len(cfgs), "paths_per_configuration": len(paths), "depth": depth, "commands_run": steps, "steps_compared": compared, "log_in_use": used.snapshot(),
		"rule": "5 fillings of {plans.jsonl, events.jsonl} x every sequence of length 4 (thorough 5) over {new task, close first open task, prune --yes, compact, claim, plan}; after every step the store must read exactly like the twin store that lacks the unused file, and the unused file must be byte-identical"}
}

func opsOf(names []string, idx []int) []string {
	var out []string
	for _, i := range idx {
		out = append(out, names[i])
	}
	return out
}

// c18Symlinked: a project whose .ergo is a symbolic link to a directory elsewhere (a plan shared between work trees).
// Differential oracle, no opinion on how links ought to be treated: at every level of the tree and for every start
// directory at or below it, each command must do exactly what it does on the twin tree in which .ergo is that
// directory itself (same exit status, same output modulo the project root) - so all commands, init included, agree
// on whether there is a store and which one it is.
func c18Symlinked(env *core.Env) map[string]interface{} {
	cmds := []core.Req{
		core.R("", "--json", "list", "--all"), core.R("", "--json", "list", "--epics"), core.R("", "list").In(""), core.R("", "--json", "init"),
		core.R("", "--json", "new", "task").In(`{"title":"created"}`), core.R("", "--json", "claim", "--agent", "z"), core.R("", "--json", "prune"),
		core.R("", "--json", "compact"), core.R("", "--json", "plan").In(`{"title":"P","tasks":[{"title":"pa"}]}`),
	}
	type job struct{ lv, start int }
	var jobs []job
	for lv := 0; lv < 3; lv++ {
		for start := lv; start < 3; start++ {
			jobs = append(jobs, job{lv, start})
		}
	}
	var runs int64
	env.Parallel(len(jobs), func(w *core.Worker, i int) {
		j := jobs[i]
		base := c18Levels[j.lv]
		p := func(s string) string { return filepath.Join(base, s) }
		log := c18Log(fmt.Sprintf("L%d-plans", j.lv), int64(j.lv*2))
		linked := core.Store{"D:a/b/c": nil, "shared/store/plans.jsonl": log, "shared/store/lock": nil}
		up := strings.Repeat("../", j.lv)
		linked["L:"+p(".ergo")] = []byte(up + "shared/store")
		twin := core.Store{"D:a/b/c": nil, "D:shared/store": nil, p(".ergo/plans.jsonl"): log, p(".ergo/lock"): nil}
		for _, c := range cmds {
			run := func(st core.Store) core.Res {
				st.Materialize(w.Proj)
				req := c
				req.Cwd = filepath.Join(w.Proj, c18Levels[j.start])
				req.RandBase = 40
				return w.Run(req)
			}
			a, b := run(linked), run(twin)
			atomic.AddInt64(&runs, 2)
			norm := func(r core.Res) string {
				return fmt.Sprintf("exit=%d out=%s", r.Exit, strings.ReplaceAll(blankTS(r.Out), w.Proj, "<ROOT>"))
			}
			if norm(a) == norm(b) {
				continue
			}
			sig := fmt.Sprintf("C18 kind=symlinked-store-treated-differently cmd=%s", opClass(c))
			if env.ViolationSeen(sig) {
				continue
			}
			rel := c
			rel.Cwd = c18Levels[j.start]
			tr := mkTrace(linked, ".ergo at level "+fmt.Sprint(j.lv)+" is a symlink to a directory", []core.Req{rel})
			tr.Alt = []core.Req{rel}
			tr.AltSt = twin
			tr.FailIf = []Assert{{Kind: "alt_exit_differs", Step: 1}}
			report(env, sig, fmt.Sprintf(".ergo at %q is a symbolic link to a directory, start directory %q: `%s` gives %s; with .ergo being that directory itself it gives %s", base, c18Levels[j.start], c.Shell(), clipS(norm(a), 200), clipS(norm(b), 200)), tr)
		}
	})
	return map[string]interface{}{"layouts": len(jobs), "runs": runs, "rule": "a symlinked .ergo at each of 3 levels x start directory at or below it x 9 commands (init included): same exit status and output as on the twin tree where .ergo is the directory itself"}
}
