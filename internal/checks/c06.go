package checks

import (
	"fmt"
	"sort"
	"strings"
	"sync"
	"verif/internal/sched"

	"verif/internal/core"
)

func init() { Registry["C06"] = runC06 }

// ---- reference model (literal transcription of the documented table and claim rule) ----------

var c06Table = map[string][]string{
	"todo":     {"doing", "done", "blocked", "canceled"},
	"doing":    {"todo", "done", "blocked", "canceled", "error"},
	"blocked":  {"todo", "doing", "done", "canceled"},
	"done":     {"todo"},
	"canceled": {"todo"},
	"error":    {"todo", "doing", "canceled"},
}

var c06States = []string{"todo", "doing", "done", "blocked", "canceled", "error"}

func c06Allowed(from, to string) bool {
	if from == to {
		return true
	}
	for _, t := range c06Table[from] {
		if t == to {
			return true
		}
	}
	return false
}

func c06Invariant(state, by string) bool {
	switch state {
	case "doing", "error":
		return by != ""
	case "todo", "done", "canceled":
		return by == ""
	case "blocked":
		return true
	}
	return false
}

// shape of a request: which fields are present. "-" = absent.
type c06Shape struct {
	Cmd   string // set | claimid | new
	Mode  string // json | flags | bodystdin
	State string // "-" absent, else value (may be "bogus")
	Claim string // "-" absent, "" explicit empty, else agent
	Agent string // "-" absent, else value
	Pos   string // for --agent: "pre" (before subcommand) | "post"
}

func (s c06Shape) String() string {
	return fmt.Sprintf("%s/%s state=%s claim=%q agent=%s/%s", s.Cmd, s.Mode, s.State, s.Claim, s.Agent, s.Pos)
}

// c06Model: returns accept and resulting (state, claimant).
func c06Model(curState, curBy string, sh c06Shape) (bool, string, string) {
	reqState, claim := sh.State, sh.Claim
	if sh.Cmd == "claimid" {
		if sh.Agent == "-" {
			return false, curState, curBy
		}
		reqState, claim = "doing", sh.Agent
	}
	if reqState == "-" && claim == "-" {
		return false, curState, curBy // nothing requested
	}
	if reqState != "-" {
		valid := false
		for _, s := range c06States {
			valid = valid || s == reqState
		}
		if !valid {
			return false, curState, curBy
		}
	}
	newState, newBy := curState, curBy
	if claim != "-" {
		newBy = claim
	}
	if reqState != "-" {
		newState = reqState
	} else if claim != "-" && claim != "" {
		newState = "doing" // a claim implies doing
	}
	if !c06Allowed(curState, newState) {
		return false, curState, curBy
	}
	if (newState == "doing" || newState == "error") && newBy == "" && claim == "-" && reqState != "-" && sh.Agent != "-" {
		newBy = sh.Agent // implicit claim from the session identity
	}
	if newState == "todo" || newState == "done" || newState == "canceled" {
		newBy = ""
	}
	if !c06Invariant(newState, newBy) {
		return false, curState, curBy
	}
	return true, newState, newBy
}

func c06Shapes() []c06Shape {
	var out []c06Shape
	states := append([]string{"-"}, c06States...)
	states = append(states, "bogus", "Done", "DOING", " todo", "canceled ")
	for _, cmd := range []string{"set", "new"} {
		for _, mode := range []string{"json", "flags", "bodystdin"} {
			claims := []string{"-", "a", "b"}
			if mode == "json" {
				claims = []string{"-", "", "a", "b"}
			}
			for _, st := range states {
				for _, cl := range claims {
					for _, ag := range []string{"-", "a"} {
						out = append(out, c06Shape{Cmd: cmd, Mode: mode, State: st, Claim: cl, Agent: ag, Pos: "pre"})
					}
				}
			}
		}
	}
	// claimant names that are not empty but consist of white space only: whether ergo takes them as a name or refuses
	// them is not laid down anywhere, so accept/reject is not judged for these shapes - but whatever it does, the task
	// must end up satisfying the claim invariant (doing/error <=> has a claimant as `show` reports it)
	for _, cmd := range []string{"set", "new"} {
		for _, mode := range []string{"json", "flags"} {
			for _, st := range []string{"-", "todo", "doing", "error", "done"} {
				for _, blank := range []string{" ", "\t"} {
					out = append(out, c06Shape{Cmd: cmd, Mode: mode, State: st, Claim: blank, Agent: "-", Pos: "pre"})
					if st != "-" {
						out = append(out, c06Shape{Cmd: cmd, Mode: mode, State: st, Claim: "-", Agent: blank, Pos: "pre"})
					}
				}
			}
		}
	}
	out = append(out, c06Shape{Cmd: "claimid", Mode: "flags", State: "-", Claim: "-", Agent: " ", Pos: "pre"}, c06Shape{Cmd: "claimid", Mode: "flags", State: "-", Claim: "-", Agent: "\t", Pos: "post"})
	for _, ag := range []string{"-", "a", "b"} {
		for _, pos := range []string{"pre", "post"} {
			if ag == "-" && pos == "post" {
				continue
			}
			out = append(out, c06Shape{Cmd: "claimid", Mode: "flags", State: "-", Claim: "-", Agent: ag, Pos: pos})
		}
	}
	return out
}

// c06Req builds the literal command. For cmd=new the target id is ignored.
func c06Req(sh c06Shape, id string) core.Req {
	var args []string
	args = append(args, "--json")
	if sh.Agent != "-" && sh.Pos == "pre" {
		args = append(args, "--agent", sh.Agent)
	}
	switch sh.Cmd {
	case "claimid":
		args = append(args, "claim", id)
		if sh.Agent != "-" && sh.Pos == "post" {
			args = append(args, "--agent", sh.Agent)
		}
		return core.R("", args...)
	case "set":
		args = append(args, "set", id)
	case "new":
		args = append(args, "new", "task")
	}
	switch sh.Mode {
	case "json":
		m := map[string]interface{}{}
		if sh.Cmd == "new" {
			m["title"] = "N"
		}
		if sh.State != "-" {
			m["state"] = sh.State
		}
		if sh.Claim != "-" {
			m["claim"] = sh.Claim
		}
		return core.R("", args...).In(jsonStr(m))
	default:
		if sh.Cmd == "new" {
			args = append(args, "--title", "N")
		}
		if sh.State != "-" {
			args = append(args, "--state", sh.State)
		}
		if sh.Claim != "-" {
			args = append(args, "--claim", sh.Claim)
		}
		if sh.Mode == "bodystdin" {
			args = append(args, "--body-stdin")
			return core.R("", args...).In("body text\n")
		}
		return core.R("", args...)
	}
}

type c06State struct {
	Key   string // "state/claimant"
	State string
	By    string
	Store core.Store
	Path  []string // how it was reached (shell lines)
	Depth int
}

func runC06(env *core.Env) {
	w0 := env.W0()
	// initial store: one epic E, one task T (todo, unclaimed) inside nothing.
	fx := NewFix(env, w0)
	epic := fx.NewEpic("E")
	task := fx.NewTask(map[string]interface{}{"title": "T"})
	init := fx.Store()

	shapes := c06Shapes()
	conf := newConformer(1, 300)
	if env.Thorough() {
		conf = newConformer(7, 2000)
	}
	var mu sync.Mutex
	seen := map[string]*c06State{}
	var order []string
	add := func(s *c06State) bool {
		mu.Lock()
		defer mu.Unlock()
		if _, ok := seen[s.Key]; ok {
			return false
		}
		seen[s.Key] = s
		order = append(order, s.Key)
		return true
	}
	add(&c06State{Key: "todo/", State: "todo", By: "", Store: init})
	// second root, same items: a history stamped decades ahead of this machine's clock (written on a host with a fast
	// clock, or the clock was set back since). Every request explored from here is stamped earlier than the events
	// already in the log; states reached from it carry the prefix "F:" so that the two explorations stay apart.
	{
		l := newSynLog()
		l.t = l.t.AddDate(70, 0, 0)
		l.Create(SynItem{ID: epic, Epic: true, Title: "E"})
		l.Create(SynItem{ID: task, Title: "T"})
		l.State(task, "blocked")
		l.State(task, "todo")
		add(&c06State{Key: "F:todo/", State: "todo", By: "", Store: core.Store{".ergo/plans.jsonl": l.Bytes(), ".ergo/lock": nil}})
	}
	var transitions, accepted, rejected int64
	outcomes := newCounter()
	samples := &sampleSet{max: 12}
	frontier := []string{"todo/", "F:todo/"}
	depth := 0
	exhaustive := true

	for len(frontier) > 0 {
		if !env.TimeLeft() {
			exhaustive = false
			break
		}
		var next []string
		var nmu sync.Mutex
		type job struct {
			st *c06State
			sh c06Shape
			ep bool // target the epic instead of the task
		}
		var jobs []job
		for _, k := range frontier {
			for _, sh := range shapes {
				jobs = append(jobs, job{seen[k], sh, false})
			}
		}
		if depth == 0 {
			for _, sh := range shapes {
				if sh.Cmd != "new" {
					jobs = append(jobs, job{seen["todo/"], sh, true})
				}
			}
		}
		env.Parallel(len(jobs), func(w *core.Worker, i int) {
			j := jobs[i]
			st := j.st
			if err := st.Store.Materialize(w.Proj); err != nil {
				env.HarnessError("materialize: %v", err)
			}
			target := task
			if j.ep {
				target = epic
			}
			req := c06Req(j.sh, target)
			req.Cwd = w.Proj
			req.RandBase = countCreates(st.Store.Log())
			showBefore := w.Run(core.R(w.Proj, "--json", "show", target))
			res := w.Run(req)
			conf.offer(w.Proj, st.Store, req, res)
			after, _ := core.Snapshot(w.Proj)
			mu.Lock()
			transitions++
			mu.Unlock()
			if res.Panic || res.Timeout {
				report(env, "C06 kind=crash shape="+j.sh.String(), res.String(), mkTrace(st.Store, "command crashed", []core.Req{req}, Assert{Kind: "exit_nonzero", Step: 1}))
				return
			}
			steps := []core.Req{req}
			if j.ep {
				// epics never acquire a state change or a claimant
				sh, err := core.ParseShow(w.Run(core.R(w.Proj, "--json", "show", epic)).Out)
				wantsChange := j.sh.State != "-" || j.sh.Claim != "-" || j.sh.Cmd == "claimid"
				if err != nil || sh.State != "todo" || sh.ClaimedBy != "" {
					report(env, fmt.Sprintf("C06 kind=epic-changed state=%s by=%s", sh.State, sh.ClaimedBy), j.sh.String()+" on an epic: "+res.String(),
						mkTrace(st.Store, "epic acquired state/claim", steps, Assert{Kind: "obs_differs", Step: 1, Other: 0}))
				} else if wantsChange && res.Exit == 0 {
					report(env, "C06 kind=epic-request-accepted req="+c06ReqClass(j.sh), j.sh.String()+" on an epic exits 0",
						mkTrace(st.Store, "state/claim request on an epic accepted", steps, Assert{Kind: "exit_zero", Step: 1}))
				}
				outcomes.inc(fmt.Sprintf("epic %s exit=%d", c06ReqClass(j.sh), res.Exit))
				return
			}
			cur := st
			acc, wantState, wantBy := c06Model(cur.State, cur.By, j.sh)
			// find the task the request was about
			id := task
			if j.sh.Cmd == "new" {
				acc, wantState, wantBy = c06ModelNew(j.sh)
				id = idOf(res)
				if id == "" {
					// rejected creation: look for a new item anyway (created-then-failed)
					ob := core.ObserveW(w, w.Proj)
					for _, it := range ob.All {
						if it.ID != task {
							id = it.ID
						}
					}
				}
			}
			var got core.Show
			have := false
			if id != "" {
				r := w.Run(core.R(w.Proj, "--json", "show", id))
				if r.Exit == 0 {
					if sh, err := core.ParseShow(r.Out); err == nil {
						got, have = sh, true
					}
				}
			}
			class := fmt.Sprintf("from=%s/%s req=%s via=%s/%s", cur.State, byClass(cur.By), c06ReqClass(j.sh), j.sh.Cmd, j.sh.Mode)
			if j.sh.Cmd == "new" {
				class = fmt.Sprintf("from=creation req=%s via=%s/%s", c06ReqClass(j.sh), j.sh.Cmd, j.sh.Mode)
			}
			// invariants on whatever exists now
			if have {
				valid := false
				for _, s := range c06States {
					valid = valid || s == got.State
				}
				if (!valid || !c06Invariant(got.State, got.ClaimedBy)) && (j.sh.Cmd == "new" || c06Invariant(cur.State, cur.By)) {
					report(env, fmt.Sprintf("C06 kind=invariant-broken result=%s/%s %s", got.State, byClass(got.ClaimedBy), class),
						fmt.Sprintf("%s: task is now state=%s claimed_by=%q (%s)", j.sh, got.State, got.ClaimedBy, res),
						mkTrace(st.Store, "claim invariant broken", steps, Assert{Kind: "obs_contains", Step: 1, Text: fmt.Sprintf("state=%s by=%s ", got.State, got.ClaimedBy)}))
				}
			}
			ok := res.Exit == 0
			if j.sh.Cmd != "claimid" && j.sh.State == "-" && j.sh.Claim == "-" {
				// not a state/claim request (body-only update, or an empty request): only "nothing changes" applies
				if have && j.sh.Cmd != "new" && (got.State != cur.State || got.ClaimedBy != cur.By) {
					report(env, "C06 kind=state-changed-without-request "+class, fmt.Sprintf("%s changed %s/%q to %s/%q", j.sh, cur.State, cur.By, got.State, got.ClaimedBy),
						mkTrace(st.Store, "state changed without a state/claim request", steps, Assert{Kind: "obs_differs", Step: 1, Other: 0}))
				}
				outcomes.inc(fmt.Sprintf("%s accept=%v", class, ok))
				return
			}
			outcomes.inc(fmt.Sprintf("%s accept=%v", class, ok))
			if blankName(j.sh.Claim) || blankName(j.sh.Agent) {
				// accept/reject not judged (see c06Shapes); a rejected request must still change nothing
				if !ok && j.sh.Cmd != "new" {
					showAfter := w.Run(core.R(w.Proj, "--json", "show", target))
					if string(showAfter.Out) != string(showBefore.Out) || string(after.Log()) != string(st.Store.Log()) {
						report(env, "C06 kind=rejected-but-changed "+class, fmt.Sprintf("%s exits %d but the task/log changed", j.sh, res.Exit),
							mkTrace(st.Store, "rejected request changed the task", steps, Assert{Kind: "exit_nonzero", Step: 1}, Assert{Kind: "log_differs", Step: 1, Other: 0}))
					}
				}
				return
			}
			switch {
			case ok && !acc:
				mu.Lock()
				accepted++
				mu.Unlock()
				report(env, "C06 kind=accepted-but-table-forbids "+class,
					fmt.Sprintf("%s on %s/%q exits 0; result %s/%q; the documented table/claim rule rejects it", j.sh, cur.State, cur.By, got.State, got.ClaimedBy),
					mkTrace(st.Store, "request must be rejected", steps, Assert{Kind: "exit_zero", Step: 1}))
			case !ok && acc:
				mu.Lock()
				rejected++
				mu.Unlock()
				report(env, "C06 kind=rejected-but-table-allows "+class,
					fmt.Sprintf("%s on %s/%q exits %d (%s); the table allows -> %s/%q", j.sh, cur.State, cur.By, res.Exit, clipS(string(res.Err), 200), wantState, wantBy),
					mkTrace(st.Store, "request must be accepted", steps, Assert{Kind: "exit_nonzero", Step: 1}))
			case ok && acc:
				mu.Lock()
				accepted++
				mu.Unlock()
				if !have || got.State != wantState || got.ClaimedBy != wantBy {
					report(env, fmt.Sprintf("C06 kind=wrong-result want=%s/%s got=%s/%s %s", wantState, byClass(wantBy), got.State, byClass(got.ClaimedBy), class),
						fmt.Sprintf("%s on %s/%q: want %s/%q got %s/%q", j.sh, cur.State, cur.By, wantState, wantBy, got.State, got.ClaimedBy),
						mkTrace(st.Store, "wrong resulting state", steps, Assert{Kind: "exit_zero", Step: 1}, Assert{Kind: "obs_contains", Step: 1, Text: fmt.Sprintf("state=%s by=%s ", got.State, got.ClaimedBy)}))
				}
			default:
				mu.Lock()
				rejected++
				mu.Unlock()
				if j.sh.Cmd != "new" {
					showAfter := w.Run(core.R(w.Proj, "--json", "show", target))
					if string(showAfter.Out) != string(showBefore.Out) || string(after.Log()) != string(st.Store.Log()) {
						report(env, "C06 kind=rejected-but-changed "+class,
							fmt.Sprintf("%s exits %d but the task/log changed", j.sh, res.Exit),
							mkTrace(st.Store, "rejected request changed the task", steps, Assert{Kind: "exit_nonzero", Step: 1}, Assert{Kind: "log_differs", Step: 1, Other: 0}))
					}
				}
			}
			samples.add(map[string]interface{}{"from": cur.Key, "request": req.Shell(), "exit": res.Exit, "result": got.State + "/" + got.ClaimedBy})
			// successor state (the task T for set/claim; for `new` the new task is a second witness of the
			// same abstract state space, so we continue from a store where T is unchanged)
			if have && j.sh.Cmd != "new" && c06Invariant(got.State, got.ClaimedBy) {
				era := ""
				if strings.HasPrefix(cur.Key, "F:") {
					era = "F:"
				}
				ns := &c06State{Key: era + got.State + "/" + got.ClaimedBy, State: got.State, By: got.ClaimedBy, Store: after, Depth: depth + 1,
					Path: append(append([]string{}, cur.Path...), req.Shell())}
				if add(ns) {
					nmu.Lock()
					next = append(next, ns.Key)
					nmu.Unlock()
				}
			}
		})
		sort.Strings(next)
		frontier = next
		depth++
	}
	validated := conf.run(env)
	// concurrent requests on one task: the invariant must hold on the final state of every interleaving
	cf := buildConcFix(env)
	concCov := concPhase(env, "C06", []sched.Scenario{
		{Name: "unclaim||set-doing/blocked+claimed", Store: blockedClaimed(env, cf), Procs: []core.Req{core.R("", "--json", "set", cf.T1).In(`{"claim":""}`), core.R("", "--json", "set", cf.T1).In(`{"state":"doing"}`)}},
		{Name: "claim-id||set-done/todo", Store: cf.SA, Procs: []core.Req{core.R("", "--json", "claim", cf.T2, "--agent", "b"), core.R("", "--json", "set", cf.T2).In(`{"state":"done"}`)}},
		{Name: "set-todo||set-error/doing", Store: cf.SHeld, Procs: []core.Req{core.R("", "--json", "set", cf.T1).In(`{"state":"todo"}`), core.R("", "--json", "set", cf.T1).In(`{"state":"error"}`)}},
		{Name: "claim||claim-id/todo", Store: cf.SA, Procs: []core.Req{claimReq("a"), core.R("", "--json", "claim", cf.T1, "--agent", "b")}},
	}, invC06)
	var keys []string
	for _, k := range order {
		keys = append(keys, k)
	}
	cov := map[string]interface{}{
		"states": len(seen), "transitions": transitions, "traces_validated_against_impl": validated,
		"samples": samples.list, "exhaustive": exhaustive, "bfs_depth_to_fixpoint": depth,
		"abstract_states": keys, "request_shapes": len(shapes), "accepted": accepted, "rejected": rejected,
		"distinct_outcome_classes": outcomes.len(), "unconfirmed_candidates": unconfirmed.Load(),
		"concurrent":  concCov,
		"explanation": "BFS to fixpoint (from a fresh store and from the same items with a history stamped 70 years ahead of the clock) over (state, claimant) of one task under every request shape (state x claim x --agent x input mode x command), each transition = one real command through the in-process server; oracle = literal transition table + claim rule; plus every shape against an epic",
	}
	env.Finish("model_checking", cov, []string{
		"abstract state = (state, claimant) of the task: set/claim decisions read nothing else of the task",
		"server backend validated against spawned binaries (traces_validated_against_impl); violations are confirmed 5x with spawned processes before being reported",
	})
}

func c06ModelNew(sh c06Shape) (bool, string, string) {
	return c06ModelFrom("todo", "", sh)
}

func c06ModelFrom(s, by string, sh c06Shape) (bool, string, string) {
	if sh.State == "-" && sh.Claim == "-" {
		return true, "todo", "" // plain creation
	}
	return c06Model(s, by, sh)
}

func byClass(by string) string {
	if by == "" {
		return "-"
	}
	return "claimed"
}

func c06ReqClass(sh c06Shape) string {
	if sh.Cmd == "claimid" {
		if sh.Agent == "-" {
			return "claim-id(no-agent)"
		}
		return "claim-id"
	}
	cl := "absent"
	switch {
	case sh.Claim == "":
		cl = "empty"
	case sh.Claim != "-":
		cl = "agent"
	}
	ag := ""
	if sh.Agent != "-" {
		ag = "+agent"
	}
	return fmt.Sprintf("state:%s,claim:%s%s", strings.ReplaceAll(sh.State, "-", "absent"), cl, ag)
}

func clipS(s string, n int) string {
	if len(s) > n {
		return s[:n] + "…"
	}
	return s
}

// blockedClaimed: T1 blocked and claimed by "holder" (so that unclaim and ->doing race on a legal pre-state).
func blockedClaimed(env *core.Env, cf *concFix) core.Store {
	fx := FixFrom(env, env.W0(), cf.SHeld, 200)
	fx.Set(cf.T1, map[string]interface{}{"state": "blocked"})
	return fx.Store()
}

// blankName: a claimant/agent value that is non-empty but white space only.
func blankName(v string) bool { return v != "-" && v != "" && strings.TrimSpace(v) == "" }
