package checks

import (
	"encoding/json"
	"fmt"
	"sort"
	"strings"
	"sync/atomic"
	"verif/internal/sched"

	"verif/internal/core"
)

func init() { Registry["C09"] = runC09 }

func pruneIDs(res core.Res) ([]string, bool) {
	var o struct {
		Kind   string   `json:"kind"`
		DryRun bool     `json:"dry_run"`
		IDs    []string `json:"pruned_ids"`
	}
	if res.Exit != 0 || json.Unmarshal(res.Out, &o) != nil || o.Kind != "prune" {
		return nil, false
	}
	sort.Strings(o.IDs)
	return o.IDs, true
}

func permutations(n int) [][]int {
	var out [][]int
	p := make([]int, n)
	for i := range p {
		p[i] = i
	}
	var rec func(k int)
	rec = func(k int) {
		if k == n {
			out = append(out, append([]int{}, p...))
			return
		}
		for i := k; i < n; i++ {
			p[k], p[i] = p[i], p[k]
			rec(k + 1)
			p[k], p[i] = p[i], p[k]
		}
	}
	rec(0)
	return out
}

func runC09(env *core.Env) {
	var cfgs []c08Cfg
	cfgs = append(cfgs, c08Configs(1, c08Full, 3)...)
	cfgs = append(cfgs, c08Configs(2, c08Full, 3)...)
	if env.Thorough() {
		cfgs = append(cfgs, c08Configs(3, c08Small, 3)...)
	}
	// the one- and two-task stores once more as an older ergo would have written them (epics with a stored state)
	for _, n := range []int{1, 2} {
		opts := c08Full
		if n == 2 && !env.Thorough() {
			opts = c08Small
		}
		for _, c := range c08Configs(n, opts, 3) {
			c.Variant = 6
			cfgs = append(cfgs, c)
		}
	}
	// ... and as a merge of two clones leaves them: a claim recorded behind the event that closed the task
	for _, n := range []int{1, 2} {
		for _, c := range c08Configs(n, c08Small, 3) {
			closed := false
			for k, t := range c.Tasks {
				if c.live(k) && (t.State == "done" || t.State == "canceled") {
					closed = true
				}
			}
			if closed {
				c.Variant = 8
				cfgs = append(cfgs, c)
			}
		}
	}
	// stores whose tasks depend on each other in a cycle (each clone of a merged log added one direction): the prune
	// policy does not mention dependencies, so it must come out the same
	for _, c := range c08Configs(2, c08Full, 3) {
		if len(c.Deps) == 0 && c.EpicDep == 0 && !c.E2Gone {
			c.Deps = [][2]int{{0, 1}, {1, 0}}
			cfgs = append(cfgs, c)
		}
	}
	for _, c := range c08Configs(3, c08Small, 2) {
		if len(c.Deps) == 0 && c.EpicDep == 0 && !c.E2Gone {
			c.Deps = [][2]int{{0, 1}, {1, 2}, {2, 0}}
			cfgs = append(cfgs, c)
		}
	}
	var evalsA, prunedSomething, followUps int64
	classes := newCounter()
	samples := &sampleSet{max: 8}
	conf := newConformer(len(cfgs)/120+1, 300)
	env.Logf("part a: %d stores", len(cfgs))
	env.Parallel(len(cfgs), func(w *core.Worker, i int) {
		if !env.TimeLeft() {
			return
		}
		c := cfgs[i]
		st, ids, ep := c.build()
		st.Materialize(w.Proj)
		atomic.AddInt64(&evalsA, 1)
		fail := func(kind, detail string, steps []core.Req, as ...Assert) {
			report(env, "C09 kind="+kind, c.String()+": "+detail, mkTrace(st, c.String(), steps, as...))
		}
		// model: done/canceled live tasks; then epics with no surviving child
		want := map[string]bool{}
		surv := map[int]int{}
		for k, t := range c.Tasks {
			if !c.live(k) {
				continue
			}
			if t.State == "done" || t.State == "canceled" {
				want[ids[k]] = true
			} else {
				surv[c.In[k]]++
			}
		}
		if surv[1] == 0 {
			want[ep[0]] = true
		}
		if surv[2] == 0 && !c.E2Gone {
			want[ep[1]] = true
		}
		dryReq := core.R(w.Proj, "--json", "prune")
		dry := w.Run(dryReq)
		conf.offer(w.Proj, st, dryReq, dry)
		afterDry, _ := core.Snapshot(w.Proj)
		dryIDs, ok1 := pruneIDs(dry)
		if !ok1 {
			fail("dry-run-failed", dry.String(), []core.Req{dryReq}, Assert{Kind: "exit_nonzero", Step: 1})
			return
		}
		if d := c10Diff(st, afterDry); d != "" {
			fail("dry-run-writes changed="+d, "prune without --yes changed the store: "+d, []core.Req{dryReq}, Assert{Kind: "log_differs", Step: 1, Other: 0})
		}
		yesReq := core.R(w.Proj, "--json", "prune", "--yes")
		yes := w.Run(yesReq)
		yesIDs, ok2 := pruneIDs(yes)
		if !ok2 {
			fail("prune-failed", yes.String(), []core.Req{yesReq}, Assert{Kind: "exit_nonzero", Step: 1})
			return
		}
		if strings.Join(dryIDs, ",") != strings.Join(yesIDs, ",") {
			fail("dry-run-differs-from-apply", fmt.Sprintf("dry run %v, --yes %v", dryIDs, yesIDs), []core.Req{dryReq, yesReq}, Assert{Kind: "exit_zero", Step: 2})
		}
		got := map[string]bool{}
		for _, id := range yesIDs {
			got[id] = true
		}
		if !sameSet(got, want) {
			var extra, missing []string
			for id := range got {
				if !want[id] {
					extra = append(extra, id)
				}
			}
			for id := range want {
				if !got[id] {
					missing = append(missing, id)
				}
			}
			kind := "prune-set-wrong"
			if len(extra) > 0 {
				kind = "pruned-active-work-or-nonempty-epic"
			} else if len(missing) > 0 {
				kind = "finished-work-not-pruned"
			}
			fail(kind, fmt.Sprintf("pruned %v, policy says %v", yesIDs, keys(want)), []core.Req{yesReq}, Assert{Kind: "exit_zero", Step: 1})
		}
		if len(yesIDs) > 0 {
			atomic.AddInt64(&prunedSomething, 1)
		}
		classes.inc(fmt.Sprintf("pruned_tasks=%d pruned_epics=%d", countTasks(yesIDs, ids), len(yesIDs)-countTasks(yesIDs, ids)))
		pruned, _ := core.Snapshot(w.Proj)
		obs := core.ObserveW(w, w.Proj)
		if obs.Fail != "" {
			fail("unreadable-after-prune", obs.Fail, []core.Req{yesReq}, Assert{Kind: "read_fails", Step: 1})
			return
		}
		// gone from every list; former dependents no longer blocked by it
		c2 := c
		c2.Tasks = append([]c08Opt{}, c.Tasks...)
		for k := range c2.Tasks {
			if got[ids[k]] {
				c2.Tasks[k].Pruned = true
			}
		}
		if got[ep[1]] {
			c2.E2Gone = true
		}
		for id := range got {
			if _, listed := obs.Item(id); listed {
				fail("pruned-id-still-listed", id+" is still listed after prune", []core.Req{yesReq}, Assert{Kind: "obs_contains", Step: 1, Text: id})
			}
		}
		for k := range c2.Tasks {
			if !c2.live(k) {
				continue
			}
			it, _ := obs.Item(ids[k])
			e1gone := got[ep[0]]
			r := c2.ready(k)
			if e1gone && c2.In[k] == 2 && c2.EpicDep == 2 {
				// E2 depended on E1 which is now pruned: nothing inherited any more
				c3 := c2
				c3.EpicDep = 0
				r = c3.ready(k)
			}
			if it.Ready != r {
				fail("dependent-readiness-after-prune", fmt.Sprintf("T%d ready=%v after prune, expected %v", k, it.Ready, r), []core.Req{yesReq}, Assert{Kind: "exit_zero", Step: 1})
			}
		}
		// every command naming a pruned id fails and changes nothing
		var someLive string
		for k := range c2.Tasks {
			if c2.live(k) {
				someLive = ids[k]
			}
		}
		for _, id := range yesIDs {
			reqs := []core.Req{
				core.R(w.Proj, "--json", "show", id),
				core.R(w.Proj, "--json", "set", id).In(`{"state":"todo"}`),
				core.R(w.Proj, "--json", "set", id).In(`{"title":"back"}`),
				core.R(w.Proj, "--json", "claim", id, "--agent", "z"),
				core.R(w.Proj, "--json", "new", "task").In(jsonStr(map[string]string{"title": "n", "epic": id})),
			}
			if someLive != "" {
				reqs = append(reqs, core.R(w.Proj, "--json", "sequence", id, someLive), core.R(w.Proj, "--json", "sequence", someLive, id),
					core.R(w.Proj, "--json", "sequence", "rm", id, someLive), core.R(w.Proj, "--json", "set", someLive).In(jsonStr(map[string]string{"epic": id})))
			}
			for _, r := range reqs {
				pruned.Materialize(w.Proj)
				r.RandBase = 900
				res := w.Run(r)
				atomic.AddInt64(&followUps, 1)
				after, _ := core.Snapshot(w.Proj)
				if res.Exit == 0 {
					fail("command-on-pruned-id-accepted op="+opClass(r), r.Shell()+" exits 0 on a pruned id", []core.Req{yesReq, r}, Assert{Kind: "exit_zero", Step: 2})
				} else if d := c10Diff(pruned, after); d != "" {
					fail("command-on-pruned-id-changed-store op="+opClass(r), r.Shell()+" changed: "+d, []core.Req{yesReq, r}, Assert{Kind: "log_differs", Step: 2, Other: 1})
				}
			}
		}
		if i%3000 == 0 {
			samples.add(map[string]interface{}{"store": c.String(), "pruned": yesIDs})
		}
	})

	// ---- part b: id re-issue under scripted environment answers, and commands after compact -------
	w0 := env.W0()
	rich := buildRich(env, w0)
	var reissue int64
	type ans struct {
		name string
		hex  []string
	}
	live := rich.ByState["todo"]
	answers := []ans{
		{"fresh", nil},
		{"collides-with-live", []string{core.HexForID(live)}},
		{"collides-with-tombstoned-task", []string{core.HexForID(rich.PrunedTask)}},
		{"collides-with-tombstoned-epic", []string{core.HexForID(rich.PrunedEpic)}},
	}
	creators := []struct {
		name string
		req  core.Req
	}{
		{"new-task", core.R("", "--json", "new", "task").In(`{"title":"fresh one"}`)},
		{"new-task-flags", core.R("", "--json", "new", "task", "--title", "fresh one")},
		{"new-epic", core.R("", "--json", "new", "epic").In(`{"title":"fresh epic"}`)},
		{"plan", core.R("", "--json", "plan").In(`{"title":"P","tasks":[{"title":"a"},{"title":"b","after":["a"]}]}`)},
	}
	for _, cr := range creators {
		for _, a := range answers {
			rich.Store.Materialize(w0.Proj)
			req := cr.req
			req.Cwd = w0.Proj
			req.RandBase = 5000
			if a.hex != nil {
				if cr.name == "plan" {
					// first draw (epic id) fresh, uuid, then the task id collides
					req.RandHex = []string{"", "", a.hex[0]}
				} else {
					req.RandHex = a.hex
				}
			}
			res := w0.Run(req)
			reissue++
			tomb := map[string]bool{rich.PrunedTask: true, rich.PrunedEpic: true}
			var newIDs []string
			var out map[string]interface{}
			json.Unmarshal(res.Out, &out)
			if id, ok := out["id"].(string); ok {
				newIDs = append(newIDs, id)
			}
			if e, ok := out["epic"].(map[string]interface{}); ok {
				if id, ok := e["id"].(string); ok {
					newIDs = append(newIDs, id)
				}
			}
			if ts, ok := out["tasks"].([]interface{}); ok {
				for _, t := range ts {
					if m, ok := t.(map[string]interface{}); ok {
						if id, ok := m["id"].(string); ok {
							newIDs = append(newIDs, id)
						}
					}
				}
			}
			tr := mkTrace(rich.Store, "environment answer: "+a.name, []core.Req{req}, Assert{Kind: "exit_zero", Step: 1})
			if res.Exit != 0 {
				report(env, "C09 kind=create-failed answer="+a.name+" cmd="+cr.name, res.String(), mkTrace(rich.Store, a.name, []core.Req{req}, Assert{Kind: "exit_nonzero", Step: 1}))
				continue
			}
			for _, id := range newIDs {
				if tomb[id] {
					report(env, "C09 kind=pruned-id-reissued cmd="+cr.name, fmt.Sprintf("%s handed out %s, which is tombstoned in the log (random source answered %s)", cr.name, id, a.name), tr)
				}
				if id == live {
					report(env, "C09 kind=live-id-reissued cmd="+cr.name, "handed out a live id "+id, tr)
				}
				sh := w0.Run(core.R(w0.Proj, "--json", "show", id))
				if sh.Exit != 0 {
					report(env, "C09 kind=acknowledged-create-missing cmd="+cr.name, fmt.Sprintf("%s reported new id %s but show fails: %s", cr.name, id, clipS(string(sh.Err), 100)),
						mkTrace(rich.Store, a.name, []core.Req{req, core.R("", "--json", "show", id)}, Assert{Kind: "exit_zero", Step: 1}, Assert{Kind: "exit_nonzero", Step: 2}))
				}
			}
		}
	}
	// a writer that died one byte short of finishing a prune: the last tombstone lacks only its newline. It is a whole
	// event (readers apply it); no later command may bring the pruned item back.
	{
		fx := FixFrom(env, w0, rich.Store, rich.N)
		victim := rich.ByState["canceled"]
		fx.Must(core.R("", "--json", "prune", "--yes"))
		st := fx.Store()
		log := st.Log()
		if len(log) > 0 && log[len(log)-1] == '\n' && strings.Contains(string(log[strings.LastIndex(string(log[:len(log)-1]), "\n")+1:]), "tombstone") {
			cut := st.WithLog(log[:len(log)-1])
			lastID := prunedIDs(log)
			_ = lastID
			for _, r := range []core.Req{core.R("", "--json", "new", "task").In(`{"title":"after the cut"}`), core.R("", "--json", "set", rich.ByState["todo"]).In(`{"title":"renamed"}`), core.R("", "--json", "claim", "--agent", "z")} {
				cut.Materialize(w0.Proj)
				var stillGone []string
				for _, id := range prunedIDs(log) {
					if w0.Run(core.R(w0.Proj, "--json", "show", id)).Exit != 0 {
						stillGone = append(stillGone, id)
					}
				}
				q := r
				q.Cwd = w0.Proj
				q.RandBase = 9000
				res := w0.Run(q)
				followUps++
				for _, id := range stillGone {
					if sh := w0.Run(core.R(w0.Proj, "--json", "show", id)); sh.Exit == 0 {
						report(env, "C09 kind=pruned-id-back-after-append-to-unterminated-log op="+opClass(r), fmt.Sprintf("log ends in a tombstone without newline; after `%s` (exit %d) `show %s` works again", r.Shell(), res.Exit, id),
							mkTrace(cut, "pruned item resurrected", []core.Req{r, core.R("", "--json", "show", id)}, Assert{Kind: "exit_zero", Step: 2}))
					}
				}
			}
			_ = victim
		}
	}
	// after compact the pruned ids must stay unusable
	{
		fx := FixFrom(env, w0, rich.Store, rich.N)
		fx.Must(core.R("", "--json", "compact"))
		comp := fx.Store()
		for _, id := range []string{rich.PrunedTask, rich.PrunedEpic} {
			for _, r := range []core.Req{core.R(w0.Proj, "--json", "show", id), core.R(w0.Proj, "--json", "set", id).In(`{"state":"todo"}`), core.R(w0.Proj, "--json", "claim", id, "--agent", "z"),
				core.R(w0.Proj, "--json", "sequence", id, live), core.R(w0.Proj, "--json", "new", "task").In(jsonStr(map[string]string{"title": "n", "epic": id}))} {
				comp.Materialize(w0.Proj)
				res := w0.Run(r)
				after, _ := core.Snapshot(w0.Proj)
				followUps++
				if res.Exit == 0 || c10Diff(comp, after) != "" {
					report(env, "C09 kind=pruned-id-usable-after-compact op="+opClass(r), r.Shell()+" -> "+res.String(), mkTrace(comp, "after compact", []core.Req{r}, Assert{Kind: "exit_zero", Step: 1}))
				}
			}
		}
		o := core.ObserveW(w0, w0.Proj)
		comp.Materialize(w0.Proj)
		o = core.ObserveW(w0, w0.Proj)
		for _, id := range []string{rich.PrunedTask, rich.PrunedEpic} {
			if _, ok := o.Item(id); ok || strings.Contains(string(comp.Log()), `"`+id+`"`) {
				report(env, "C09 kind=pruned-id-survives-compact", id+" still present after compact", mkTrace(rich.Store, "compact", []core.Req{core.R("", "--json", "compact")}, Assert{Kind: "obs_contains", Step: 1, Text: id}))
			}
		}
	}

	// ---- part c: every order of the pruned id's events in a hand-merged log ---------------------
	A, X, E := core.IDFor(7001), core.IDFor(7002), core.IDFor(7003)
	mkEvents := func() [][]byte {
		l := newSynLog()
		l.Create(SynItem{ID: E, Epic: true, Title: "E"})
		l.Create(SynItem{ID: A, Title: "A"})
		n0 := len(l.lines)
		l.Create(SynItem{ID: X, Title: "X", In: E})
		ts := l.tick()
		l.ev("title", ts, map[string]interface{}{"id": X, "title": "X renamed", "ts": ts})
		l.Claim(X, "ag")
		l.State(X, "done")
		l.Link(A, X)
		l.Link(X, A)
		l.Tombstone(X)
		_ = n0
		return l.lines
	}
	lines := mkEvents()
	prefix, xev := lines[:2], lines[2:]
	perms := permutations(len(xev))
	if !env.Thorough() {
		// quick: all orders of 6 of the 7 events (claim kept adjacent before state)
		var keep [][]int
		for _, p := range perms {
			pc, ps := -1, -1
			for i, v := range p {
				if v == 2 {
					pc = i
				}
				if v == 3 {
					ps = i
				}
			}
			if ps == pc+1 {
				keep = append(keep, p)
			}
		}
		perms = keep
	}
	var permChecked, resurrected int64
	env.Parallel(len(perms), func(w *core.Worker, i int) {
		if !env.TimeLeft() {
			return
		}
		var log []byte
		for _, ln := range prefix {
			log = append(append(log, ln...), '\n')
		}
		for _, k := range perms[i] {
			log = append(append(log, xev[k]...), '\n')
		}
		st := core.Store{".ergo/plans.jsonl": log, ".ergo/lock": {}}
		st.Materialize(w.Proj)
		obs := core.ObserveW(w, w.Proj)
		atomic.AddInt64(&permChecked, 1)
		bad := ""
		switch {
		case obs.Fail != "":
			bad = "unreadable: " + obs.Fail
		default:
			if _, ok := obs.Item(X); ok {
				bad = "pruned id is listed"
			}
			if a, ok := obs.Item(A); !ok || !a.Ready || a.Blocked {
				bad = fmt.Sprintf("dependent A not ready (listed=%v ready=%v blocked=%v)", ok, a.Ready, a.Blocked)
			}
			if sh, ok := obs.Shows[A]; ok && (len(sh.Deps) > 0 || len(sh.RDeps) > 0) {
				bad = fmt.Sprintf("A still has edges to the pruned id: deps=%v rdeps=%v", sh.Deps, sh.RDeps)
			}
			if r := w.Run(core.R(w.Proj, "--json", "show", X)); r.Exit == 0 {
				bad = "show <pruned id> succeeds"
			}
		}
		if bad != "" {
			atomic.AddInt64(&resurrected, 1)
			report(env, "C09 kind=event-order-resurrects-pruned-id "+strings.SplitN(bad, ":", 2)[0], fmt.Sprintf("order %v of {create,title,claim,state,linkA->X,linkX->A,tombstone}: %s", perms[i], bad),
				mkTrace(st, "hand-merged order", nil, Assert{Kind: "obs_contains", Step: 0, Text: X}))
		}
	})
	validated := conf.run(env)
	cf := buildConcFix(env)
	concCov := concPhase(env, "C09", []sched.Scenario{
		{Name: "prune||reopen-done-task", Store: cf.SA, Procs: []core.Req{core.R("", "--json", "prune", "--yes"), core.R("", "--json", "set", cf.T4).In(`{"state":"todo"}`)}},
		{Name: "prune||new-task-in-empty-epic", Store: cf.SA, Procs: []core.Req{core.R("", "--json", "prune", "--yes"), core.R("", "--json", "new", "task").In(jsonStr(map[string]string{"title": "late child", "epic": cf.E2}))}},
		{Name: "prune||set-done", Store: cf.SA, Procs: []core.Req{core.R("", "--json", "prune", "--yes"), core.R("", "--json", "set", cf.T2).In(`{"state":"done"}`)}},
		{Name: "prune||prune", Store: cf.SA, Procs: []core.Req{core.R("", "--json", "prune", "--yes"), core.R("", "--json", "prune", "--yes")}},
	}, invC14)
	// a store with far more prunable items than any batching threshold: 180 epics with one finished task each, 3 open
	// tasks in epics of their own and one open task next to a finished one. One `prune --yes` takes exactly the finished
	// tasks and the epics they leave empty - all of them - and the dry run says the same.
	bigCov := map[string]interface{}{}
	{
		w := env.W0()
		l := newSynLog()
		want := map[string]bool{}
		for i := 0; i < 180; i++ {
			e, t := core.IDFor(int64(40000+2*i)), core.IDFor(int64(40001+2*i))
			l.Create(SynItem{ID: e, Epic: true, Title: fmt.Sprintf("finished epic %d", i)})
			l.Create(SynItem{ID: t, Title: fmt.Sprintf("finished task %d", i), In: e})
			l.State(t, []string{"done", "canceled"}[i%2])
			want[e], want[t] = true, true
		}
		for i := 0; i < 4; i++ {
			e, t := core.IDFor(int64(41000+2*i)), core.IDFor(int64(41001+2*i))
			l.Create(SynItem{ID: e, Epic: true, Title: fmt.Sprintf("open epic %d", i)})
			l.Create(SynItem{ID: t, Title: fmt.Sprintf("open task %d", i), In: e})
			if i == 3 {
				t2 := core.IDFor(41100)
				l.Create(SynItem{ID: t2, Title: "finished sibling", In: e})
				l.State(t2, "done")
				want[t2] = true
			}
		}
		st := core.Store{".ergo/plans.jsonl": l.Bytes(), ".ergo/lock": nil}
		st.Materialize(w.Proj)
		dry, okD := pruneIDs(w.Run(core.R(w.Proj, "--json", "prune")))
		yes, okY := pruneIDs(w.Run(core.R(w.Proj, "--json", "prune", "--yes")))
		got := map[string]bool{}
		for _, id := range yes {
			got[id] = true
		}
		obs := core.ObserveW(w, w.Proj)
		left := 0
		for id := range want {
			if _, listed := obs.Item(id); listed {
				left++
			}
		}
		bigCov = map[string]interface{}{"prunable": len(want), "dry_run_reports": len(dry), "pruned": len(yes), "still_listed": left}
		if !okD || !okY || strings.Join(dry, ",") != strings.Join(yes, ",") || !sameSet(got, want) || left > 0 || obs.Fail != "" {
			report(env, "C09 kind=large-prune-incomplete-or-wrong", fmt.Sprintf("%d prunable items (180 one-task epics, 1 finished sibling): dry run reports %d, --yes reports %d, %d of them are still listed afterwards (reads: %q)", len(want), len(dry), len(yes), left, obs.Fail),
				mkTrace(st, "361 prunable items", []core.Req{core.R("", "--json", "prune", "--yes")}, Assert{Kind: "obs_contains", Step: 1, Text: "finished "}))
		}
	}
	// prune under I/O errors and short writes: what it reports as pruned must be pruned (exit 0 => effect there),
	// a failing prune must have removed nothing
	pruneCmds := []crashCmd{{"prune", core.R("", "--json", "prune", "--yes")}}
	faultCov := map[string]interface{}{"io_errors": faultPhase(env, "C09", cf.SA, pruneCmds), "short_writes": shortWritePhase(env, "C09", cf.SA, pruneCmds)}
	env.Finish("model_checking", map[string]interface{}{
		"fault_phases": faultCov, "large_prune": bigCov,
		"concurrent": concCov,
		"states":     evalsA + permChecked, "transitions": followUps + reissue + 2*evalsA, "traces_validated_against_impl": validated, "samples": samples.list,
		"exhaustive": env.TimeLeft(), "stores_pruned": evalsA, "stores_where_something_was_pruned": prunedSomething, "follow_up_commands_on_pruned_ids": followUps,
		"id_issue_scenarios": reissue, "event_order_permutations": permChecked, "permutations_violating": resurrected, "prune_outcome_classes": classes.snapshot(),
		"unconfirmed_candidates": unconfirmed.Load(),
		"bound":                  "a: every store of the C08 scope with <=2 tasks (thorough: +3 tasks restricted), dry run vs --yes vs policy, then 9 commands per pruned id; b: 4 creating commands x 4 answers of the random source (fresh / collides with live / with tombstoned task / with tombstoned epic) + commands after compact; c: all orders of the pruned id's 7 events (quick: the 720 orders with claim,state adjacent)",
	}, []string{"ids are forced through a scripted crypto/rand source in the server and in spawned verif binaries", "re-issue after compact is not explored: the log then holds no record of the id (spec: post-compact behaviour)"})
}

func countTasks(ids, taskIDs []string) int {
	n := 0
	for _, id := range ids {
		if contains(taskIDs, id) {
			n++
		}
	}
	return n
}
