package checks

import (
	"fmt"
	"regexp"
	"sort"
	"strconv"
	"strings"
	"sync/atomic"
	"unicode/utf8"

	"verif/internal/core"
)

func init() { Registry["C19"] = runC19 }

// dispWidth: terminal cells of a string over the alphabet used here (independent of go-runewidth):
// combining marks 0, CJK / emoji 2, everything else 1.
func dispWidth(s string) int {
	w := 0
	for _, r := range s {
		switch {
		case r >= 0x0300 && r <= 0x036f:
		case (r >= 0x1100 && r <= 0x115f) || (r >= 0x2e80 && r <= 0xa4cf) || (r >= 0xac00 && r <= 0xd7a3) || (r >= 0xf900 && r <= 0xfaff) || (r >= 0xfe30 && r <= 0xfe6f) || (r >= 0xff00 && r <= 0xff60) || (r >= 0x1f300 && r <= 0x1faff) || (r >= 0x20000 && r <= 0x3fffd):
			w += 2
		default:
			w++
		}
	}
	return w
}

var summaryRe = regexp.MustCompile(`(\d+) (ready|in progress|blocked|error|done|canceled)`)

type humanView struct {
	Rows      []HumanRow
	Summary   map[string]int
	Sentences []string
	Lines     []string
}

func parseHumanView(out string) humanView {
	v := humanView{Summary: map[string]int{}}
	clean := strings.ReplaceAll(ansiRe.ReplaceAllString(out, ""), "\r", "")
	v.Rows = parseHumanList(clean)
	for _, ln := range strings.Split(clean, "\n") {
		v.Lines = append(v.Lines, ln)
		t := strings.TrimSpace(ln)
		if strings.HasPrefix(t, "No ") {
			v.Sentences = append(v.Sentences, t)
		}
		if rowIDRe.MatchString(ln) || strings.Contains(ln, "→") {
			continue
		}
		if ms := summaryRe.FindAllStringSubmatch(ln, -1); len(ms) > 0 && strings.Count(ln, "·")+1 == len(ms) {
			for _, m := range ms {
				n, _ := strconv.Atoi(m[1])
				v.Summary[m[2]] = n
			}
		}
	}
	return v
}

type c19View struct {
	Name string
	Args []string
}

func bucketOf(it core.Item) string {
	switch it.State {
	case "doing":
		return "in progress"
	case "error", "done", "canceled":
		return it.State
	case "todo":
		if it.Ready {
			return "ready"
		}
		return "blocked"
	}
	return "blocked"
}

// checkView compares one human view with the JSON observation of the same store. Returns "" or a violation kind + detail.
func checkView(view c19View, v humanView, obs core.Obs, epicArg string) (string, string) {
	epicIDs := map[string]bool{}
	for _, e := range obs.Epics {
		epicIDs[e.ID] = true
	}
	taskByID := map[string]core.Item{}
	for _, t := range obs.All {
		taskByID[t.ID] = t
	}
	cnt := map[string]int{}
	for _, r := range v.Rows {
		cnt[r.ID]++
		if _, isT := taskByID[r.ID]; !isT && !epicIDs[r.ID] {
			return "row-for-unknown-id", "row ends in " + r.ID + " which is not a listed item"
		}
	}
	var scope []core.Item // tasks whose rows must appear exactly once
	var counted []core.Item
	buckets := []string{}
	switch view.Name {
	case "--all":
		scope, counted = obs.All, obs.All
		buckets = []string{"ready", "in progress", "blocked", "error", "done", "canceled"}
		for _, e := range obs.Epics {
			if cnt[e.ID] != 1 {
				return "epic-row-count", fmt.Sprintf("epic %s appears in %d rows of list --all", e.ID, cnt[e.ID])
			}
		}
	case "default", "-q":
		for _, t := range obs.All {
			if t.State != "done" && t.State != "canceled" {
				scope = append(scope, t)
			}
		}
		counted = scope
		buckets = []string{"ready", "in progress", "blocked", "error"}
	case "--ready":
		for _, t := range obs.All {
			if t.Ready {
				scope = append(scope, t)
			}
		}
		counted = scope
		buckets = []string{"ready"}
	case "--epic", "--epic--ready":
		for _, t := range obs.All {
			if t.EpicID == epicArg && (view.Name == "--epic" || t.Ready) {
				scope = append(scope, t)
			}
		}
		counted = scope
		buckets = []string{"ready", "in progress", "blocked", "error", "done", "canceled"}
		if view.Name == "--epic--ready" {
			buckets = []string{"ready"}
		}
	case "--epics":
		for _, e := range obs.Epics {
			if cnt[e.ID] != 1 {
				return "epic-row-count", fmt.Sprintf("epic %s appears in %d rows of list --epics", e.ID, cnt[e.ID])
			}
		}
		for _, r := range v.Rows {
			if !epicIDs[r.ID] {
				return "task-row-in-epics-view", r.ID
			}
		}
		if len(obs.Epics) == 0 && len(v.Sentences) == 0 {
			return "empty-view-without-sentence", "list --epics prints nothing for a store without epics"
		}
		return "", ""
	}
	inScope := map[string]bool{}
	for _, t := range scope {
		inScope[t.ID] = true
		if cnt[t.ID] != 1 {
			return fmt.Sprintf("task-row-count rows=%d view=%s", cnt[t.ID], view.Name), fmt.Sprintf("task %s (state %s, epic %q, ready=%v) appears in %d rows", t.ID, t.State, t.EpicID, t.Ready, cnt[t.ID])
		}
	}
	taskRows := 0
	for _, r := range v.Rows {
		t, isTask := taskByID[r.ID]
		if !isTask {
			if r.Child {
				return "epic-row-with-tree-glyph", r.Text
			}
			continue
		}
		taskRows++
		if cnt[r.ID] > 1 {
			return "task-row-count rows=2+ view=" + view.Name, "task " + r.ID + " appears more than once"
		}
		if (view.Name == "--ready" || view.Name == "--epic--ready") && !inScope[r.ID] {
			return "non-ready-task-in-ready-view", fmt.Sprintf("task %s (state %s ready=%v) is shown by %s", r.ID, t.State, t.Ready, view.Name)
		}
		if view.Name == "--epic" && !inScope[r.ID] {
			return "foreign-task-in-epic-view", r.ID
		}
		// children sit under their own epic with a tree glyph; root rows have none
		if t.EpicID == "" && (r.Child || r.Under != "") {
			return "root-task-drawn-as-child", r.Text
		}
		if t.EpicID != "" && (!r.Child || r.Under != t.EpicID) {
			return "child-not-under-its-epic", fmt.Sprintf("task %s of epic %s is drawn under %q (glyph=%v)", r.ID, t.EpicID, r.Under, r.Child)
		}
	}
	// summary = tasks per bucket in the view's scope
	want := map[string]int{}
	for _, t := range counted {
		want[bucketOf(t)]++
	}
	if view.Name != "-q" {
		if taskRows == 0 && len(v.Sentences) > 0 {
			// empty-state output: its summary (if any) describes what is held up / finished instead; only require no contradiction
			for b, n := range v.Summary {
				total := 0
				for _, t := range obs.All {
					if bucketOf(t) == b && (epicArg == "" || t.EpicID == epicArg) {
						total++
					}
				}
				if n != total {
					return "summary-count-wrong bucket=" + b, fmt.Sprintf("empty-state summary says %d %s, the store has %d", n, b, total)
				}
			}
		} else {
			for _, b := range buckets {
				if v.Summary[b] != want[b] {
					return "summary-count-wrong bucket=" + strings.ReplaceAll(b, " ", "-") + " view=" + view.Name, fmt.Sprintf("summary says %d %s, the view's scope has %d (summary %v)", v.Summary[b], b, want[b], v.Summary)
				}
			}
			for b := range v.Summary {
				if !contains(buckets, b) {
					return "summary-has-foreign-bucket view=" + view.Name, b
				}
			}
		}
	}
	if len(v.Rows) == 0 && len(v.Sentences) == 0 {
		return "empty-view-without-sentence view=" + view.Name, "no rows and no explanatory sentence"
	}
	return "", ""
}

// checkLayout: every row is valid UTF-8, fits the width and carries its id in one common column.
func checkLayout(out []byte, width int) (string, string) {
	text := strings.ReplaceAll(string(out), "\r", "")
	col := -1
	for _, ln := range strings.Split(text, "\n") {
		if !utf8.ValidString(ln) {
			return "invalid-utf8-row", fmt.Sprintf("%q", clipS(ln, 200))
		}
		plain := ansiRe.ReplaceAllString(ln, "")
		m := rowIDRe.FindStringSubmatchIndex(plain)
		if m == nil {
			continue
		}
		idStart := dispWidth(plain[:m[4]])
		total := dispWidth(strings.TrimRight(plain, " "))
		if width > 0 && total > width {
			return "row-wider-than-terminal", fmt.Sprintf("row is %d cells on a %d-column terminal: %q", total, width, plain)
		}
		if col == -1 {
			col = idStart
		} else if idStart != col {
			return "id-column-not-aligned", fmt.Sprintf("id starts in column %d here, %d in an earlier row: %q", idStart, col, plain)
		}
	}
	return "", ""
}

func runC19(env *core.Env) {
	views := []c19View{{"default", []string{"list"}}, {"--all", []string{"list", "--all"}}, {"--ready", []string{"list", "--ready"}}, {"--epics", []string{"list", "--epics"}},
		{"-q", []string{"-q", "list"}}}
	// ---- part A: structure, on every store of the C08 scope with <= 2 tasks (+ restricted 3 tasks) ----
	var cfgs []c08Cfg
	cfgs = append(cfgs, c08Configs(1, c08Full, 3)...)
	cfgs = append(cfgs, c08Configs(2, c08Full, 3)...)
	if env.Thorough() {
		cfgs = append(cfgs, c08Configs(3, c08Small, 3)...)
	} else {
		all := c08Configs(3, c08Small, 2)
		for i := 0; i < len(all); i += 7 {
			cfgs = append(cfgs, all[i])
		}
	}
	var evalsA, evalsB int64
	classes := newCounter()
	samples := &sampleSet{max: 8}
	conf := newConformer(len(cfgs)*6/250+1, 300)
	env.Logf("part A: %d stores x %d views", len(cfgs), len(views)+2)
	env.Parallel(len(cfgs), func(w *core.Worker, i int) {
		if !env.TimeLeft() {
			return
		}
		c := cfgs[i]
		st, _, ep := c.build()
		st.Materialize(w.Proj)
		obs := core.ObserveW(w, w.Proj)
		if obs.Fail != "" {
			return
		}
		vs := append([]c19View{}, views...)
		vs = append(vs, c19View{"--epic", []string{"list", "--epic", ep[0]}}, c19View{"--epic--ready", []string{"list", "--epic", ep[0], "--ready"}})
		for _, view := range vs {
			req := core.R(w.Proj, view.Args...).In("")
			res := w.Run(req)
			atomic.AddInt64(&evalsA, 1)
			if i%9 == 0 {
				conf.offer(w.Proj, st, req, res)
			}
			bad := func(kind, detail string) {
				report(env, "C19 kind="+kind, fmt.Sprintf("%s | view `ergo %s`: %s\n%s", c.String(), strings.Join(view.Args, " "), detail, clipS(string(res.Out), 900)),
					mkTrace(st, kind, []core.Req{core.R("", view.Args...).In("")}, Assert{Kind: "exit_zero", Step: 1}))
			}
			if res.Exit != 0 {
				bad("list-fails view="+view.Name, res.String())
				continue
			}
			epicArg := ""
			if strings.HasPrefix(view.Name, "--epic") && view.Name != "--epics" {
				epicArg = ep[0]
			}
			hv := parseHumanView(string(res.Out))
			if k, d := checkView(view, hv, obs, epicArg); k != "" {
				bad(k, d)
			}
			if k, d := checkLayout(res.Out, 80); k != "" {
				bad(k+" width=pipe", d)
			}
			classes.inc(fmt.Sprintf("%s rows=%d sentence=%v", view.Name, len(hv.Rows), len(hv.Sentences) > 0))
		}
	})

	// ---- part B: layout under every width and text class, on stores with blockers, claimants, children and results ----
	type textClass struct{ name, unit string }
	classesT := []textClass{{"ascii", "abcdefghij"}, {"cjk-wide", "日本語タイトル"}, {"combining", "éáó"}, {"astral", "\U0001F600\U0001F680"}, {"mixed", "aé日\U0001F600 "}, {"accented", "éèüñ"}}
	widths := []int{0, 20, 21, 40, 60, 79, 80, 81, 120, 200}
	lengths := []int{1, 12, 20, 21, 40, 70, 130}
	type bjob struct {
		tc    textClass
		n     int
		width int
		store core.Store
		sname string
	}
	w0 := env.W0()
	mkStore := func(title, agent string) core.Store {
		fx := NewFix(env, w0)
		st := fx.Store()
		st["out.txt"] = []byte("r\n")
		fx = FixFrom(env, w0, st, 0)
		e := fx.NewEpic(title + " epic")
		blocker := fx.NewTask(map[string]interface{}{"title": title})
		fx.NewTask(map[string]interface{}{"title": title + " child", "epic": e})
		dep := fx.NewTask(map[string]interface{}{"title": "waits " + title, "epic": e})
		fx.Must(core.R("", "sequence", blocker, dep))
		doing := fx.NewTask(map[string]interface{}{"title": title + " doing"})
		fx.Set(doing, map[string]interface{}{"claim": agent})
		done := fx.NewTask(map[string]interface{}{"title": title + " done", "epic": e})
		fx.Set(done, map[string]interface{}{"state": "done", "result_path": "out.txt", "result_summary": "s"})
		e2 := fx.NewEpic("second " + title)
		fx.Must(core.R("", "sequence", e, e2))
		fx.NewTask(map[string]interface{}{"title": "in second", "epic": e2})
		return fx.Store()
	}
	var bjobs []bjob
	for _, tc := range classesT {
		for _, n := range lengths {
			if !env.Thorough() && (n == 12 || n == 40) {
				continue
			}
			title := ""
			for dispWidth(title) < n {
				title += tc.unit
			}
			r := []rune(title)
			for dispWidth(string(r)) > n && len(r) > 1 {
				r = r[:len(r)-1]
			}
			title = strings.TrimSpace(string(r))
			if title == "" {
				title = "x"
			}
			agent := "agent-" + string([]rune(tc.unit)[:2])
			st := mkStore(title, strings.TrimSpace(agent))
			for _, wd := range widths {
				bjobs = append(bjobs, bjob{tc, n, wd, st, fmt.Sprintf("%s title of %d cells", tc.name, n)})
			}
		}
	}
	env.Logf("part B: %d (text, width) combinations x %d views", len(bjobs), 4)
	bviews := []c19View{{"default", []string{"list"}}, {"--all", []string{"list", "--all"}}, {"--epics", []string{"list", "--epics"}}, {"--ready", []string{"list", "--ready"}}}
	env.Parallel(len(bjobs), func(w *core.Worker, i int) {
		if !env.TimeLeft() {
			return
		}
		j := bjobs[i]
		j.store.Materialize(w.Proj)
		obs := core.ObserveW(w, w.Proj)
		for _, view := range bviews {
			req := core.R(w.Proj, view.Args...).In("")
			req.PtyCols = j.width
			res := w.Run(req)
			atomic.AddInt64(&evalsB, 1)
			wname := "pipe"
			if j.width > 0 {
				wname = strconv.Itoa(j.width)
			}
			verdict := func(res core.Res) (string, string) {
				if res.Exit != 0 {
					return "list-fails", res.String()
				}
				width := j.width
				if width == 0 {
					width = 80
				}
				if k, d := checkLayout(res.Out, width); k != "" {
					return k, d
				}
				return checkView(view, parseHumanView(string(res.Out)), obs, "")
			}
			bad := func(kind, detail string) {
				sig := fmt.Sprintf("C19 kind=%s text=%s", kind, j.tc.name)
				if env.ViolationSeen(sig) {
					return
				}
				for k := 0; k < 4; k++ { // the same request must fail the same way every time
					if k2, _ := verdict(w.Run(req)); k2 != kind {
						env.Logf("UNCONFIRMED layout candidate %s (then %q)", sig, k2)
						unconfirmed.Add(1)
						return
					}
				}
				env.Violation(sig, fmt.Sprintf("%s, terminal width %s, view `ergo %s`: %s", j.sname, wname, strings.Join(view.Args, " "), detail),
					map[string]interface{}{"kind": "pty-list", "store": j.store, "args": view.Args, "pty_cols": j.width, "note": "run the command with stdout on a pty of that width (pty_cols 0 = pipe)"})
			}
			if res.Exit != 0 {
				bad("list-fails", res.String())
				continue
			}
			width := j.width
			if width == 0 {
				width = 80
			}
			if k, d := checkLayout(res.Out, width); k != "" {
				bad(k, d)
			}
			hv := parseHumanView(string(res.Out))
			if k, d := checkView(view, hv, obs, ""); k != "" {
				bad(k, d)
			}
			classes.inc(fmt.Sprintf("layout %s width=%s", j.tc.name, wname))
		}
		if i%60 == 0 {
			samples.add(map[string]interface{}{"text": j.sname, "width": j.width})
		}
	})
	validated := conf.run(env)
	var ck []string
	for k := range classes.snapshot() {
		ck = append(ck, k)
	}
	sort.Strings(ck)
	env.Finish("model_checking", map[string]interface{}{
		"states": int64(len(cfgs)) + int64(len(bjobs)), "transitions": evalsA + evalsB, "traces_validated_against_impl": validated, "samples": samples.list,
		"evaluations": evalsA + evalsB, "distinct_nontrivial": len(ck), "exhaustive": env.TimeLeft(),
		"rule":                    "A: every store of the C08 scope with <=2 tasks (quick: + every 7th restricted 3-task store; thorough: all) x 7 list views (default, --all, --ready, --epics, -q, --epic E, --epic E --ready) on a pipe: rows, glyphs, parents, summary buckets and empty-state sentences against list --json of the same store; B: 6 text classes (ASCII, CJK wide, combining, astral, mixed, accented) x title widths {1,20,21,70,130 (+12,40)} x stdout in {pipe, pty of 20,21,40,60,79,80,81,120,200 columns} x 4 views on a store with blockers, claimants, children, results and epic dependencies: valid UTF-8, row width <= terminal width, common id column",
		"structure_views_checked": evalsA, "layout_views_checked": evalsB, "unconfirmed_candidates": unconfirmed.Load(),
	}, []string{
		"display width uses an independent width function valid for the chosen alphabet (combining 0, CJK/emoji 2, else 1); characters of ambiguous width are not used in titles; locale C.UTF-8",
		"terminal widths below 20 are not explored ('narrow' is not defined by the property; the fixed furniture of a child row is 14-15 cells)",
		"rows = lines ending in an item id; result lines, summary, blank lines and sentences are parsed separately",
	})
}
