package checks

import (
	"encoding/json"
	"fmt"
	"sort"
	"strings"
	"sync/atomic"

	"verif/internal/core"
)

func init() { Registry["C11"] = runC11 }

type planTask struct {
	Title *string  `json:"title,omitempty"`
	Body  *string  `json:"body,omitempty"`
	After []string `json:"after,omitempty"`
}

type planDoc struct {
	Title *string    `json:"title,omitempty"`
	Body  *string    `json:"body,omitempty"`
	Tasks []planTask `json:"tasks"`
}

func sp(s string) *string { return &s }

// planModel: accept iff the document describes a valid graph; returns the edge set (from-title -> to-title).
func planModel(d planDoc) (bool, map[string]bool) {
	blank := func(s *string) bool { return s == nil || strings.TrimSpace(*s) == "" }
	if blank(d.Title) || len(d.Tasks) == 0 {
		return false, nil
	}
	if d.Body != nil && strings.TrimSpace(*d.Body) == "" {
		return false, nil
	}
	titles := map[string]bool{}
	for _, t := range d.Tasks {
		if blank(t.Title) || titles[*t.Title] {
			return false, nil
		}
		titles[*t.Title] = true
		if t.Body != nil && strings.TrimSpace(*t.Body) == "" {
			return false, nil
		}
	}
	edges := map[string]bool{}
	adj := map[string][]string{}
	for _, t := range d.Tasks {
		for _, a := range t.After {
			if strings.TrimSpace(a) == "" || a == *t.Title || !titles[a] {
				return false, nil
			}
			if !edges[*t.Title+"\x00"+a] {
				edges[*t.Title+"\x00"+a] = true
				adj[*t.Title] = append(adj[*t.Title], a)
			}
		}
	}
	state := map[string]int{}
	var visit func(string) bool
	visit = func(u string) bool {
		state[u] = 1
		for _, v := range adj[u] {
			if state[v] == 1 || (state[v] == 0 && !visit(v)) {
				return false
			}
		}
		state[u] = 2
		return true
	}
	for t := range titles {
		if state[t] == 0 && !visit(t) {
			return false, nil
		}
	}
	return true, edges
}

func multisets(dom []string, max int) [][]string {
	out := [][]string{nil}
	for i, a := range dom {
		out = append(out, []string{a})
		if max >= 2 {
			for _, b := range dom[i:] {
				out = append(out, []string{a, b})
			}
		}
	}
	return out
}

func c11Docs(thorough bool) []planDoc {
	var docs []planDoc
	E := sp("Plan epic")
	// n = 1
	for _, tt := range []*string{sp("a"), sp(" "), nil} {
		for _, af := range multisets([]string{"a", "zz", "", "A"}, 2) {
			docs = append(docs, planDoc{Title: E, Tasks: []planTask{{Title: tt, After: af}}})
		}
	}
	// n = 2: title pairs incl. duplicates and near-duplicates; after over {other, own, dangling, empty, other in another case / with trailing space}
	pairs := [][2]*string{{sp("a"), sp("b")}, {sp("a"), sp("a")}, {sp("a"), sp("A")}, {sp("a"), sp("a ")}, {sp("a"), sp(" ")}, {sp("a"), nil}, {sp("é"), sp("é")}}
	for _, p := range pairs {
		name := func(s *string) string {
			if s == nil {
				return "a"
			}
			return *s
		}
		t0, t1 := name(p[0]), name(p[1])
		dom0 := []string{t1, t0, "zz", "", strings.ToUpper(t1), t1 + " "}
		dom1 := []string{t0, t1, "zz", "", strings.ToUpper(t0), t0 + " "}
		m0, m1 := multisets(dom0, 2), multisets(dom1, 2)
		for _, a0 := range m0 {
			for _, a1 := range m1 {
				docs = append(docs, planDoc{Title: E, Tasks: []planTask{{Title: p[0], After: a0}, {Title: p[1], After: a1}}})
			}
		}
	}
	// n = 3: every relation (incl. cyclic ones) over the other two titles, multisets of size <= 2
	for _, tt := range [][3]string{{"a", "b", "c"}, {"a", "b", "a"}} {
		var ms [3][][]string
		for i := 0; i < 3; i++ {
			var dom []string
			for k := 0; k < 3; k++ {
				if k != i {
					dom = append(dom, tt[k])
				}
			}
			ms[i] = multisets(dom, 2)
		}
		for _, a0 := range ms[0] {
			for _, a1 := range ms[1] {
				for _, a2 := range ms[2] {
					docs = append(docs, planDoc{Title: E, Tasks: []planTask{{Title: sp(tt[0]), After: a0}, {Title: sp(tt[1]), After: a1}, {Title: sp(tt[2]), After: a2}}})
				}
			}
		}
	}
	if thorough { // n = 4: chains, diamonds and every single back edge
		tt := []string{"a", "b", "c", "d"}
		for mask := 0; mask < 1<<12; mask++ {
			var tasks []planTask
			k := 0
			for i := 0; i < 4; i++ {
				var af []string
				for j := 0; j < 4; j++ {
					if i == j {
						continue
					}
					if mask&(1<<k) != 0 {
						af = append(af, tt[j])
					}
					k++
				}
				tasks = append(tasks, planTask{Title: sp(tt[i]), After: af})
			}
			docs = append(docs, planDoc{Title: E, Tasks: tasks})
		}
	}
	// `after` lists that repeat a title with another one in between (and adjacent, and three times): every sequence of
	// length 3 over the other two titles, for the last and for the first task of a three-task document
	for _, pos := range []int{2, 0} {
		tt := []string{"a", "b", "c"}
		var dom []string
		for k := range tt {
			if k != pos {
				dom = append(dom, tt[k])
			}
		}
		for m := 0; m < 8; m++ {
			af := []string{dom[m&1], dom[(m>>1)&1], dom[(m>>2)&1]}
			var tasks []planTask
			for k := range tt {
				t := planTask{Title: sp(tt[k])}
				if k == pos {
					t.After = af
				}
				tasks = append(tasks, t)
			}
			docs = append(docs, planDoc{Title: E, Tasks: tasks})
		}
	}
	// bodies and epic title/body variants on a base document
	bodies := []*string{nil, sp("text"), sp(" \n"), sp("line1\nline2 \"q\" \\ <b>&\n"), sp("日本語 \U0001F600 é")}
	for _, eb := range bodies {
		for _, tb := range bodies {
			docs = append(docs, planDoc{Title: E, Body: eb, Tasks: []planTask{{Title: sp("a"), Body: tb}, {Title: sp("b"), After: []string{"a"}, Body: sp("second")}}})
		}
	}
	// which tasks carry a body: every subset of three tasks (an entry without body must come out without one, wherever it stands)
	for m := 0; m < 8; m++ {
		var tasks []planTask
		for k, tt := range []string{"a", "b", "c"} {
			t := planTask{Title: sp(tt)}
			if m&(1<<k) != 0 {
				t.Body = sp("body of " + tt)
			}
			tasks = append(tasks, t)
		}
		docs = append(docs, planDoc{Title: E, Tasks: tasks})
	}
	// titles that contain what a program might use to glue two titles into a key: two different (task, after) pairs that
	// spell the same text when joined by that separator
	for _, sep := range []string{"->", "|", ":", ",", " ", "/", "\t", "=>", "\x1f"} {
		docs = append(docs, planDoc{Title: E, Tasks: []planTask{{Title: sp("c")}, {Title: sp("b" + sep + "c")}, {Title: sp("a" + sep + "b"), After: []string{"c"}}, {Title: sp("a"), After: []string{"b" + sep + "c"}}}})
	}
	for _, et := range []*string{nil, sp(""), sp("  "), sp(" padded "), sp("Título \U0001F600")} {
		docs = append(docs, planDoc{Title: et, Tasks: []planTask{{Title: sp("a")}}})
	}
	docs = append(docs, planDoc{Title: E, Tasks: nil}, planDoc{Title: E, Tasks: []planTask{}})
	return docs
}

// raw documents that are structurally invalid (never accepted)
var c11Raw = []string{
	``, ` `, `{`, `[]`, `null`, `"x"`, `{"title":"P"}`, `{"title":"P","tasks":null}`, `{"title":"P","tasks":{}}`, `{"title":"P","tasks":[null]}`,
	`{"title":"P","tasks":["a"]}`, `{"title":"P","tasks":[{"title":"a"}],"extra":1}`, `{"title":"P","tasks":[{"title":"a","extra":1}]}`,
	`{"title":"P","tasks":[{"title":"a","after":"a"}]}`, `{"title":"P","tasks":[{"title":"a","after":[1]}]}`, `{"title":1,"tasks":[{"title":"a"}]}`,
	`{"title":"P","tasks":[{"title":"a"}]} {"title":"Q","tasks":[{"title":"b"}]}`, `{"title":"P","tasks":[{"title":"a"}]} x`, `{"title":"P","tasks":[{"title":"a"}]}[]`,
	`{"Title":"P","tasks":[{"title":"a"}],"titel":"x"}`, `{"title":"P","tasks":[{"title":"a","state":"done"}]}`, `{"title":"P","tasks":[{"title":"a","epic":"X"}]}`,
}

// a valid document followed (or preceded) by every kind of JSON token: "several JSON values" and trailing
// garbage must be refused whatever the stray token is
func init() {
	good := `{"title":"P","tasks":[{"title":"a"},{"title":"b","after":["a"]}]}`
	tails := []string{"}", "]", ",", ":", "x", "1", "-", `"s"`, "null", "true", "{}", "[]", "}}", "]]", "] " + good, "} " + good, ", " + good, "\x00", "/* c */", "// c"}
	for _, sep := range []string{"", " ", "\n", "\r\n\t"} {
		for _, t := range tails {
			c11Raw = append(c11Raw, good+sep+t)
		}
	}
	for _, h := range []string{"}", "]", ",", "x", "1 ", "null ", "[] ", "{} ", "\ufeff"} {
		c11Raw = append(c11Raw, h+good)
	}
	// a first document of every length around the read-buffer boundaries of a streaming decoder (512 doubling: 512,
	// 1024, 1536, 2048, 3584, 4096, 7680, 8192), followed by a second document with and without a separator: what
	// follows the first value must be noticed wherever the first value happens to end
	second := `{"title":"Q","tasks":[{"title":"z"}]}`
	for _, b := range []int{512, 1024, 1536, 2048, 3584, 4096, 7680, 8192} {
		for n := b - 3; n <= b+3; n++ {
			frame := `{"title":"P","tasks":[{"title":"a","body":""}]}`
			pad := n - len(frame)
			first := `{"title":"P","tasks":[{"title":"a","body":"` + strings.Repeat("p", pad) + `"}]}`
			c11Raw = append(c11Raw, first+second, first+"\n"+second)
		}
	}
}

func runC11(env *core.Env) {
	w0 := env.W0()
	rich := buildRich(env, w0)
	empty := NewFix(env, w0).Store()
	leg := rich.Store.Clone()
	leg[".ergo/events.jsonl"] = leg[".ergo/plans.jsonl"]
	delete(leg, ".ergo/plans.jsonl")
	pres := []core.Store{empty, rich.Store, leg}
	pres = append(pres, tornVariants(rich.Store)[0], tornVariants(rich.Store)[2])
	preNames := []string{"empty", "rich", "legacy-file", "torn-fragment", "torn-mid-event"}
	docs := c11Docs(env.Thorough())
	type job struct {
		pre int
		raw string
		doc *planDoc
	}
	var jobs []job
	for pi := range pres {
		for i := range docs {
			b, _ := json.Marshal(docs[i])
			jobs = append(jobs, job{pi, string(b), &docs[i]})
		}
		for _, r := range c11Raw {
			jobs = append(jobs, job{pi, r, nil})
		}
	}
	preObs := make([]core.Obs, len(pres))
	for i, p := range pres {
		p.Materialize(w0.Proj)
		preObs[i] = core.ObserveW(w0, w0.Proj)
		if preObs[i].Fail != "" {
			env.HarnessError("pre-store %s unreadable: %s", preNames[i], preObs[i].Fail)
		}
	}
	env.Logf("%d documents x %d pre-stores = %d runs", len(docs)+len(c11Raw), len(pres), len(jobs))
	conf := newConformer(len(jobs)/300+1, 320)
	var evals, acc, rej int64
	classes := newCounter()
	samples := &sampleSet{max: 8}
	env.Parallel(len(jobs), func(w *core.Worker, i int) {
		if !env.TimeLeft() {
			return
		}
		j := jobs[i]
		pre := pres[j.pre]
		pre.Materialize(w.Proj)
		req := core.R(w.Proj, "--json", "plan").In(j.raw)
		req.RandBase = 2*countCreates(pre.Log()) + 40
		res := w.Run(req)
		atomic.AddInt64(&evals, 1)
		conf.offer(w.Proj, pre, req, res)
		after, _ := core.Snapshot(w.Proj)
		bad := func(kind, detail string, as ...Assert) {
			report(env, "C11 kind="+kind, fmt.Sprintf("pre=%s doc=%s: %s", preNames[j.pre], clipS(j.raw, 300), detail), mkTrace(pre, kind, []core.Req{req}, as...))
		}
		if res.Panic || res.Timeout {
			bad("crash", res.String(), Assert{Kind: "exit_nonzero", Step: 1})
			return
		}
		want := false
		var wantEdges map[string]bool
		if j.doc != nil {
			want, wantEdges = planModel(*j.doc)
		}
		classes.inc(fmt.Sprintf("pre=%s model=%v exit0=%v", preNames[j.pre], want, res.Exit == 0))
		if res.Exit != 0 {
			atomic.AddInt64(&rej, 1)
			if want {
				bad("valid-plan-rejected", res.String(), Assert{Kind: "exit_nonzero", Step: 1})
			}
			if d := c10Diff(pre, after); d != "" {
				bad("rejected-plan-wrote changed="+d, "store changed: "+d, Assert{Kind: "exit_nonzero", Step: 1}, Assert{Kind: "log_differs", Step: 1, Other: 0})
			}
			v, err := oneJSONValue(res.Out)
			if m, ok := v.(map[string]interface{}); err != nil || !ok || m["error"] == nil {
				bad("rejection-without-error-object", "stdout="+clipS(string(res.Out), 200), Assert{Kind: "exit_nonzero", Step: 1})
			}
			return
		}
		atomic.AddInt64(&acc, 1)
		if !want {
			bad("invalid-plan-accepted", "exit 0, reply "+clipS(string(res.Out), 300), Assert{Kind: "exit_zero", Step: 1})
			return
		}
		d := *j.doc
		var rep struct {
			Kind string `json:"kind"`
			Epic struct {
				ID, UUID, Title string
				CreatedAt       string `json:"created_at"`
			} `json:"epic"`
			Tasks []struct{ ID, Title string } `json:"tasks"`
			Edges []struct {
				From string `json:"from_id"`
				To   string `json:"to_id"`
			} `json:"edges"`
		}
		if err := json.Unmarshal(res.Out, &rep); err != nil {
			bad("bad-reply", err.Error(), Assert{Kind: "exit_zero", Step: 1})
			return
		}
		obs := core.ObserveW(w, w.Proj)
		if obs.Fail != "" {
			bad("store-unreadable-after-plan", obs.Fail, Assert{Kind: "exit_zero", Step: 1}, Assert{Kind: "read_fails", Step: 1})
			return
		}
		po := preObs[j.pre]
		// nothing that existed before is altered
		for id, raw := range po.RawShow {
			if obs.RawShow[id] != raw {
				bad("pre-existing-item-altered", "show "+id+" changed", Assert{Kind: "exit_zero", Step: 1}, Assert{Kind: "show_differs", Step: 1, Other: 0, Text: id})
				break
			}
		}
		// exactly one new epic + n tasks
		var newIDs []string
		for _, id := range obs.IDs() {
			if _, was := po.Shows[id]; !was {
				newIDs = append(newIDs, id)
			}
		}
		if len(newIDs) != len(d.Tasks)+1 || len(rep.Tasks) != len(d.Tasks) {
			bad("wrong-item-count", fmt.Sprintf("%d new items, %d tasks in reply, document has %d tasks", len(newIDs), len(rep.Tasks), len(d.Tasks)), Assert{Kind: "exit_zero", Step: 1})
			return
		}
		esh, ok := obs.Shows[rep.Epic.ID]
		eit, _ := obs.Item(rep.Epic.ID)
		body := func(s *string) string {
			if s == nil {
				return ""
			}
			return *s
		}
		if !ok || eit.Kind != "epic" || esh.Title != *d.Title || esh.Body != body(d.Body) || rep.Epic.Title != *d.Title || esh.UUID != rep.Epic.UUID || esh.CreatedAt != rep.Epic.CreatedAt || esh.EpicID != "" {
			bad("epic-not-as-described", fmt.Sprintf("epic shows title=%q body=%q (document %q/%q)", esh.Title, esh.Body, *d.Title, body(d.Body)), Assert{Kind: "exit_zero", Step: 1})
		}
		title2id := map[string]string{}
		prevCreated := esh.CreatedAt
		for k, t := range d.Tasks {
			rt := rep.Tasks[k]
			sh, ok := obs.Shows[rt.ID]
			it, _ := obs.Item(rt.ID)
			if !ok || it.Kind != "task" || rt.Title != *t.Title || sh.Title != *t.Title || sh.Body != body(t.Body) || sh.EpicID != rep.Epic.ID || sh.State != "todo" || sh.ClaimedBy != "" {
				bad("task-not-as-described", fmt.Sprintf("task %d: reply %q, shows title=%q body=%q epic=%q state=%s by=%q; document %q/%q", k, rt.Title, sh.Title, sh.Body, sh.EpicID, sh.State, sh.ClaimedBy, *t.Title, body(t.Body)), Assert{Kind: "exit_zero", Step: 1})
			}
			if core.TSLess(sh.CreatedAt, prevCreated) {
				bad("creation-order-not-input-order", fmt.Sprintf("task %d created_at %s before predecessor %s", k, sh.CreatedAt, prevCreated), Assert{Kind: "exit_zero", Step: 1})
			}
			prevCreated = sh.CreatedAt
			title2id[*t.Title] = rt.ID
		}
		wantE := map[string]bool{}
		for e := range wantEdges {
			p := strings.SplitN(e, "\x00", 2)
			wantE[title2id[p[0]]+"->"+title2id[p[1]]] = true
		}
		gotE, repE := map[string]bool{}, map[string]bool{}
		for _, rt := range rep.Tasks {
			for _, dd := range obs.Shows[rt.ID].Deps {
				gotE[rt.ID+"->"+dd] = true
			}
		}
		for _, e := range rep.Edges {
			repE[e.From+"->"+e.To] = true
		}
		if !sameSet(gotE, wantE) {
			bad("edges-not-as-described", fmt.Sprintf("edges %v, the document's after relation is %v", keys(gotE), keys(wantE)), Assert{Kind: "exit_zero", Step: 1})
		}
		if !sameSet(repE, gotE) || len(rep.Edges) != len(repE) {
			bad("reported-edges-differ-from-read", fmt.Sprintf("reply edges %v, show %v", rep.Edges, keys(gotE)), Assert{Kind: "exit_zero", Step: 1})
		}
		if msg := checkDepInvariants(obs); msg != "" {
			bad("graph-invariant-broken-by-plan", msg, Assert{Kind: "exit_zero", Step: 1})
		}
		if i%1500 == 0 {
			samples.add(map[string]interface{}{"pre": preNames[j.pre], "doc": j.raw, "exit": res.Exit})
		}
	})
	validated := conf.run(env)
	cls := classes.snapshot()
	var ck []string
	for k := range cls {
		ck = append(ck, k)
	}
	sort.Strings(ck)
	// a plan whose write is cut short (disk fills up in the middle): whole graph or nothing
	var big planDoc
	{
		e := "big plan"
		big.Title = &e
		for i := 0; i < 40; i++ {
			t := fmt.Sprintf("step %02d", i)
			pt := planTask{Title: &t}
			if i > 0 {
				pt.After = []string{fmt.Sprintf("step %02d", i-1)}
			}
			big.Tasks = append(big.Tasks, pt)
		}
	}
	bigDoc, _ := json.Marshal(big)
	planCmds := []crashCmd{
		{"plan-2", core.R("", "--json", "plan").In(`{"title":"P","tasks":[{"title":"a"},{"title":"b","after":["a"]}]}`)},
		{"plan-40-chain", core.R("", "--json", "plan").In(string(bigDoc))},
	}
	shortCov := map[string]interface{}{"rich": shortWritePhase(env, "C11", rich.Store, planCmds), "torn-tail": shortWritePhase(env, "C11", pres[3], planCmds[:1])}
	env.Finish("model_checking", map[string]interface{}{
		"short_write_phase": shortCov,
		"states":            len(pres), "transitions": evals, "traces_validated_against_impl": validated, "samples": samples.list,
		"exhaustive": env.TimeLeft(), "documents": len(docs) + len(c11Raw), "accepted": acc, "rejected": rej, "outcome_classes": cls,
		"unconfirmed_candidates": unconfirmed.Load(),
		"bound":                  "all plan documents with 1-2 tasks over title variants {distinct, duplicate, case variant, trailing space, blank, missing, NFC/NFD} x `after` multisets (<=2) over {other, own, dangling, empty, case variant, trailing-space variant}; all 3-task documents with `after` multisets over the other two titles (every relation incl. cyclic) for distinct and duplicate titles; `after` sequences of length 3 that repeat a title with another in between; thorough: all 4096 relations on 4 tasks; body/epic-title variants; 22 structurally invalid payloads + a valid document followed by each of 20 stray tokens (4 separators) or preceded by each of 9 + first documents of every length within 3 bytes of 8 read-buffer boundaries followed by a second document; titles containing 9 would-be key separators; x 5 pre-stores (empty, rich, legacy file name, 2 torn tails)",
	}, []string{"reference model: literal reading of the property (unique non-blank titles, after names another task, acyclic)"})
}
