// Package checks holds one exhaustive bounded check per property.
package checks

import (
	"encoding/json"
	"fmt"
	"os"

	"verif/internal/core"
)

var Registry = map[string]func(*core.Env){}

var replayers = map[string]func(*core.Env, json.RawMessage) bool{}

// Replay re-runs a recorded violation artefact without the explorer. Exit 1 if it still fails.
func Replay(env *core.Env, path string) {
	b, err := os.ReadFile(path)
	if err != nil {
		env.HarnessError("cannot read replay: %v", err)
	}
	var art struct {
		Property  string          `json:"property"`
		Signature string          `json:"signature"`
		Detail    string          `json:"detail"`
		Replay    json.RawMessage `json:"replay"`
	}
	if err := json.Unmarshal(b, &art); err != nil {
		env.HarnessError("bad replay file: %v", err)
	}
	fmt.Printf("replaying %s\n  signature: %s\n  detail: %s\n", path, art.Signature, art.Detail)
	fails := GenericReplay(env, art.Replay)
	env.Cleanup()
	if fails {
		fmt.Printf("VIOLATION property=%s replay=%s\n", art.Property, path)
		os.Exit(1)
	}
	fmt.Println("replay: the recorded failure does not reproduce on this tree")
	os.Exit(0)
}
