package checks

import (
	"encoding/json"
	"fmt"
	"strings"
	"sync/atomic"
	"time"
	"unicode/utf8"

	"verif/internal/core"
	"verif/internal/crash"
)

func init() { Registry["C17"] = runC17 }

// one symbol per transformation in the pipeline (JSON escaping, HTML escaping, trimming, line scanning, UTF-8)
var c17Alphabet = []string{"a", " ", `"`, `\`, "/", "\n", "\r", "\t", "\x00", "\x1f", "\x7f", "<", ">", "&", "\u0085", "\u00a0", "\u2028", "\u2029", "\ufeff",
	"\u0301", "\u00e9", "\ufffd", "\uffff", "\U0001F600", "{", "\u65e5"}

type c17Case struct {
	Field string // title | body
	Path  string // new-task | new-epic | set | plan-epic | plan-task
	Mode  string // json | flags | bodystdin
	Text  string
	Torn  bool // run on the store whose log ends in a torn fragment (appends go through the healing rewrite)
}

func (c c17Case) String() string {
	torn := ""
	if c.Torn {
		torn = " (log with torn tail)"
	}
	return fmt.Sprintf("%s via %s/%s text=%q%s", c.Field, c.Path, c.Mode, clipS(c.Text, 40), torn)
}

// build returns the request and, for `set`, needs an existing target id.
func (c c17Case) build(target string) (core.Req, bool) {
	other := "fixed"
	switch c.Path {
	case "new-task+state", "new-task+claim", "new-task+result":
		// creation with a follow-up in the same request: the text must be stored exactly as for a plain creation
		if c.Mode != "json" {
			return core.Req{}, false
		}
		m := map[string]string{"title": other}
		m[c.Field] = c.Text
		switch c.Path {
		case "new-task+state":
			m["state"] = "done"
		case "new-task+claim":
			m["claim"] = "agent-c"
		default:
			m["result_path"], m["result_summary"] = "out.txt", "attached at creation"
		}
		return core.R("", "--json", "new", "task").In(jsonStr(m)), true
	case "new-task", "new-epic":
		kind := strings.TrimPrefix(c.Path, "new-")
		switch c.Mode {
		case "json":
			m := map[string]string{"title": other}
			m[c.Field] = c.Text
			return core.R("", "--json", "new", kind).In(jsonStr(m)), true
		case "flags":
			if strings.Contains(c.Text, "\x00") || len(c.Text) > 100000 {
				return core.Req{}, false
			}
			args := []string{"--json", "new", kind}
			if c.Field == "title" {
				args = append(args, "--title", c.Text)
			} else {
				args = append(args, "--title", other, "--body", c.Text)
			}
			return core.R("", args...), true
		case "bodystdin":
			if c.Field != "body" {
				return core.Req{}, false
			}
			return core.R("", "--json", "new", kind, "--title", other, "--body-stdin").In(c.Text), true
		}
	case "set":
		switch c.Mode {
		case "json":
			return core.R("", "--json", "set", target).In(jsonStr(map[string]string{c.Field: c.Text})), true
		case "flags":
			if strings.Contains(c.Text, "\x00") || len(c.Text) > 100000 {
				return core.Req{}, false
			}
			return core.R("", "--json", "set", target, "--"+c.Field, c.Text), true
		case "bodystdin":
			if c.Field != "body" {
				return core.Req{}, false
			}
			return core.R("", "--json", "set", target, "--body-stdin").In(c.Text), true
		}
	case "plan-epic", "plan-task":
		if c.Mode != "json" {
			return core.Req{}, false
		}
		epic := map[string]interface{}{"title": "plan epic"}
		task := map[string]interface{}{"title": "plan task"}
		if c.Path == "plan-epic" {
			epic[c.Field] = c.Text
		} else {
			task[c.Field] = c.Text
		}
		epic["tasks"] = []interface{}{task}
		return core.R("", "--json", "plan").In(jsonStr(epic)), true
	}
	return core.Req{}, false
}

// expected: (accepted?, stored text). The only documented alteration: titles given by flag or by `set` are trimmed.
func (c c17Case) expected() (bool, string) {
	blank := strings.TrimSpace(c.Text) == ""
	if c.Field == "title" {
		if blank {
			return false, ""
		}
		if c.Mode == "flags" || c.Path == "set" {
			return true, strings.TrimSpace(c.Text)
		}
		return true, c.Text
	}
	// body
	switch {
	case c.Mode == "flags":
		if c.Text == "" {
			return true, "" // an empty flag means "not given"
		}
		return true, c.Text
	case c.Mode == "bodystdin" && c.Path != "set":
		return true, c.Text
	default:
		if blank {
			return false, ""
		}
		return true, c.Text
	}
}

func runC17(env *core.Env) {
	w0 := env.W0()
	fx := NewFix(env, w0)
	target := fx.NewTask(map[string]interface{}{"title": "target", "body": "original body"})
	base := fx.Store()
	base["out.txt"] = []byte("result\n")
	tornBase := tornVariants(base)[0]
	var texts []string
	for _, a := range c17Alphabet {
		texts = append(texts, a)
		for _, b := range c17Alphabet {
			texts = append(texts, a+b)
		}
	}
	if env.Thorough() {
		for _, a := range c17Alphabet {
			for _, b := range c17Alphabet {
				for _, c := range c17Alphabet {
					texts = append(texts, a+b+c)
				}
			}
		}
	}
	// scanner-buffer boundaries and long lines; alternating text puts a space next to every possible cut
	for _, n := range []int{65535, 65536, 65537, 131072, 300000} {
		texts = append(texts, strings.Repeat("a", n), strings.Repeat("\u65e5", n/3), strings.Repeat("a ", n/2)+"z", strings.Repeat("\u00e9\n", n/3)+"z")
	}
	// around the 10 MiB line limit of the log format: just below it the text must round-trip, above it the
	// command must refuse and write nothing (the store must stay readable either way)
	huge := []string{strings.Repeat("b", 10*1024*1024-600), strings.Repeat("b", 10*1024*1024+1)}
	type combo struct{ path, mode string }
	combos := []combo{{"new-task", "json"}, {"new-task", "flags"}, {"new-task", "bodystdin"}, {"new-epic", "json"}, {"new-epic", "flags"}, {"new-epic", "bodystdin"},
		{"set", "json"}, {"set", "flags"}, {"set", "bodystdin"}, {"plan-epic", "json"}, {"plan-task", "json"},
		{"new-task+state", "json"}, {"new-task+claim", "json"}, {"new-task+result", "json"}}
	var cases []c17Case
	for _, t := range texts {
		if !utf8.ValidString(t) {
			continue
		}
		for _, f := range []string{"title", "body"} {
			for _, cb := range combos {
				if len(t) > 1000 && f == "title" && cb.mode == "flags" && len(t) > 100000 {
					continue
				}
				cases = append(cases, c17Case{Field: f, Path: cb.path, Mode: cb.mode, Text: t})
			}
		}
	}
	for _, t := range huge {
		for _, cb := range []combo{{"new-task", "json"}, {"new-task", "bodystdin"}, {"set", "json"}, {"set", "bodystdin"}} {
			cases = append(cases, c17Case{Field: "body", Path: cb.path, Mode: cb.mode, Text: t})
			cases = append(cases, c17Case{Field: "body", Path: cb.path, Mode: cb.mode, Text: t, Torn: true})
		}
	}
	// the single symbols once more on the torn log, through every path
	for _, t := range c17Alphabet {
		for _, f := range []string{"title", "body"} {
			for _, cb := range combos {
				cases = append(cases, c17Case{Field: f, Path: cb.path, Mode: cb.mode, Text: "x" + t + "y", Torn: true})
			}
		}
	}
	conf := newConformer(len(cases)/280+1, 300)
	var evals, accepted, rejected, skipped int64
	classes := newCounter()
	samples := &sampleSet{max: 10}
	env.Parallel(len(cases), func(w *core.Worker, i int) {
		if !env.TimeLeft() {
			return
		}
		c := cases[i]
		req, ok := c.build(target)
		if !ok {
			atomic.AddInt64(&skipped, 1)
			return
		}
		base := base
		if c.Torn {
			base = tornBase
		}
		base.Materialize(w.Proj)
		req.Cwd = w.Proj
		req.RandBase = 50
		res := w.Run(req)
		atomic.AddInt64(&evals, 1)
		if len(c.Text) < 1000 {
			conf.offer(w.Proj, base, req, res)
		}
		wantOK, want := c.expected()
		tooLong := len(c.Text) > 10*1024*1024-400 // cannot fit a 10 MiB event line: refusing is the only correct answer
		bad := func(kind, detail string, as ...Assert) {
			report(env, fmt.Sprintf("C17 kind=%s field=%s via=%s/%s", kind, c.Field, c.Path, c.Mode), c.String()+": "+detail, mkTrace(base, kind, []core.Req{req}, as...))
		}
		if res.Panic || res.Timeout {
			bad("crash", res.String(), Assert{Kind: "exit_nonzero", Step: 1})
			return
		}
		classes.inc(fmt.Sprintf("%s %s/%s accepted=%v", c.Field, c.Path, c.Mode, res.Exit == 0))
		after, _ := core.Snapshot(w.Proj)
		if res.Exit != 0 {
			atomic.AddInt64(&rejected, 1)
			if wantOK && !tooLong {
				bad("valid-text-rejected", clipS(string(res.Err), 200), Assert{Kind: "exit_nonzero", Step: 1})
			}
			if r := w.Run(core.R(w.Proj, "--json", "list", "--all")); r.Exit != 0 {
				bad("store-unreadable-after-rejected-text", clipS(string(r.Err), 200), Assert{Kind: "exit_nonzero", Step: 1}, Assert{Kind: "read_fails", Step: 1})
			}
			if string(base.Log()) != string(after.Log()) { // (a stale plans.jsonl.tmp left by a refused rewrite is not store state)
				bad("rejected-but-written", c10Diff(base, after), Assert{Kind: "exit_nonzero", Step: 1}, Assert{Kind: "log_differs", Step: 1, Other: 0})
			}
			return
		}
		atomic.AddInt64(&accepted, 1)
		if !wantOK {
			bad("blank-text-accepted", "exit 0", Assert{Kind: "exit_zero", Step: 1})
			return
		}
		// which item carries the text
		id := target
		var m map[string]interface{}
		json.Unmarshal(res.Out, &m)
		switch c.Path {
		case "new-task", "new-epic", "new-task+state", "new-task+claim", "new-task+result":
			id = str(m, "id")
		case "plan-epic":
			ep, _ := m["epic"].(map[string]interface{})
			id = str(ep, "id")
		case "plan-task":
			ts, _ := m["tasks"].([]interface{})
			if len(ts) > 0 {
				id = str(ts[0].(map[string]interface{}), "id")
			}
		}
		read := func() (string, bool) {
			r := w.Run(core.R(w.Proj, "--json", "show", id))
			if r.Exit != 0 {
				return r.String(), false
			}
			sh, err := core.ParseShow(r.Out)
			if err != nil {
				return err.Error(), false
			}
			if c.Field == "title" {
				return sh.Title, true
			}
			return sh.Body, true
		}
		for round, label := range []string{"after the command", "after compact"} {
			if round == 1 {
				if cr := w.Run(core.R(w.Proj, "--json", "compact")); cr.Exit != 0 {
					bad("compact-fails-on-text", cr.String(), Assert{Kind: "exit_zero", Step: 1})
					return
				}
			}
			got, ok := read()
			if !ok {
				bad("unreadable-"+strings.ReplaceAll(label, " ", "-"), got, Assert{Kind: "exit_zero", Step: 1}, Assert{Kind: "read_fails", Step: 1})
				return
			}
			if got != want {
				bad("text-altered "+strings.ReplaceAll(label, " ", "-"), fmt.Sprintf("%s show returns %q (len %d), expected %q (len %d); first difference at byte %d", label, clipS(got, 60), len(got), clipS(want, 60), len(want), firstDiffAt(got, want)),
					Assert{Kind: "exit_zero", Step: 1})
				return
			}
		}
		if i%4000 == 0 {
			samples.add(map[string]interface{}{"case": c.String(), "stored": clipS(want, 40)})
		}
	})
	// the clock as an environment answer: an update recorded within the same clock reading as the creation, or after
	// the clock stepped back. The text of the update is what show returns, directly and after compact.
	var clockCases int64
	{
		type cj struct {
			text  string
			delta time.Duration
		}
		var cjs []cj
		for _, sym := range c17Alphabet {
			for _, d := range []time.Duration{0, -time.Hour, time.Nanosecond} {
				cjs = append(cjs, cj{"x" + sym + "y", d})
			}
		}
		env.Parallel(len(cjs), func(w *core.Worker, i int) {
			c := cjs[i]
			if !utf8.ValidString(c.text) {
				return
			}
			l := newSynLog()
			id, ep := core.IDFor(9601), core.IDFor(9602)
			created := l.t.Add(time.Hour)
			cts := created.Format(time.RFC3339Nano)
			uts := created.Add(c.delta).Format(time.RFC3339Nano)
			for _, it := range []struct {
				id, typ string
			}{{id, "new_task"}, {ep, "new_epic"}} {
				l.ev(it.typ, cts, map[string]interface{}{"id": it.id, "uuid": "u-" + it.id, "epic_id": "", "state": "todo", "title": "as created", "body": "as created", "created_at": cts})
				l.ev("title", uts, map[string]interface{}{"id": it.id, "title": c.text, "ts": uts})
				l.ev("body", uts, map[string]interface{}{"id": it.id, "body": c.text, "ts": uts})
			}
			st := core.Store{".ergo/plans.jsonl": l.Bytes(), ".ergo/lock": nil}
			st.Materialize(w.Proj)
			atomic.AddInt64(&clockCases, 1)
			for round, label := range []string{"directly", "after compact"} {
				var steps []core.Req
				if round == 1 {
					steps = []core.Req{core.R("", "--json", "compact")}
					w.Run(core.R(w.Proj, "--json", "compact"))
				}
				for _, target := range []string{id, ep} {
					sh, err := core.ParseShow(w.Run(core.R(w.Proj, "--json", "show", target)).Out)
					if err != nil || sh.Title != c.text || sh.Body != c.text {
						report(env, "C17 kind=update-in-the-same-or-an-earlier-clock-reading-lost "+strings.ReplaceAll(label, " ", "-"),
							fmt.Sprintf("update stamped %v relative to created_at, text %q: show %s returns title %q body %q", c.delta, c.text, label, sh.Title, sh.Body),
							mkTrace(st, "update not later than created_at", append(steps, core.R("", "--json", "show", target)), Assert{Kind: "out_lacks", Step: len(steps) + 1, Text: jsonEsc(c.text)}))
						return
					}
				}
			}
		})
	}
	planBodies := c17PlanNeighbours(env, base)
	stdinCov := c17StdinFaults(env, base, target)
	validated := conf.run(env)
	env.Finish("model_checking", map[string]interface{}{
		"stdin_fault_phase":    stdinCov,
		"plan_neighbour_phase": planBodies,
		"clock_cases":          clockCases,
		"states":               len(texts), "transitions": evals, "traces_validated_against_impl": validated, "samples": samples.list,
		"evaluations": evals, "distinct_nontrivial": classes.len(), "exhaustive": env.TimeLeft(),
		"rule":  fmt.Sprintf("all strings of length 1-%d over a %d-symbol alphabet (one symbol per transformation: quotes, backslash, control chars, NUL, HTML chars, NEL/NBSP/LS/PS (trimmed by TrimSpace), BOM, combining mark, multi-byte, astral, U+FFFD/U+FFFF) plus 20 long texts (64 KiB boundaries, 128 KiB, 300 KB; plain, 3-byte runes, alternating space / newline) x {title, body} x {new task, new epic, set, plan epic, plan task} x {JSON stdin, flags, --body-stdin}; each read back by show --json directly and after compact; distinct = (field, path, mode, accepted?)", map[bool]int{false: 2, true: 3}[env.Thorough()], len(c17Alphabet)),
		"texts": len(texts), "cases": len(cases), "accepted": accepted, "rejected": rejected, "not_expressible": skipped, "outcome_classes": classes.snapshot(),
		"unconfirmed_candidates": unconfirmed.Load(),
	}, []string{"expected text: exact, except titles given by flag or by set = strings.TrimSpace(input) (Go's definition of white space); blank-after-trim titles/bodies must be rejected with nothing written", "argv cannot carry NUL or arguments over 128 KiB: those flag-mode cases are skipped and counted"})
}

func firstDiffAt(a, b string) int {
	n := len(a)
	if len(b) < n {
		n = len(b)
	}
	for i := 0; i < n; i++ {
		if a[i] != b[i] {
			return i
		}
	}
	return n
}

// jsonEsc renders s the way encoding/json writes it inside a string (without the quotes).
func jsonEsc(s string) string {
	b, _ := json.Marshal(s)
	return string(b[1 : len(b)-1])
}

// c17StdinFaults: the text arrives on standard input in three chunks through a named pipe and the k-th read(2) on it
// fails with EIO (k = 1..4; strace injection on the production binary). A command that still exits 0 must have stored
// the whole text; one that fails must have stored nothing.
func c17StdinFaults(env *core.Env, base core.Store, target string) map[string]interface{} {
	body := "first chunk of the body\n" + strings.Repeat("second chunk ", 40) + "\nthird and last chunk\n"
	chunks := [][]byte{[]byte(body[:24]), []byte(body[24 : 24+300]), []byte(body[24+300:])}
	doc := jsonStr(map[string]string{"title": "from json", "body": body})
	jchunks := [][]byte{[]byte(doc[:20]), []byte(doc[20:200]), []byte(doc[200:])}
	type cs struct {
		name   string
		args   []string
		chunks [][]byte
		show   string // id to read back ("" = the id in the reply)
	}
	cases := []cs{
		{"new-task/bodystdin", []string{"--json", "new", "task", "--title", "fixed", "--body-stdin"}, chunks, ""},
		{"new-epic/bodystdin", []string{"--json", "new", "epic", "--title", "fixed", "--body-stdin"}, chunks, ""},
		{"set/bodystdin", []string{"--json", "set", target, "--body-stdin"}, chunks, target},
		{"new-task/json", []string{"--json", "new", "task"}, jchunks, ""},
		{"set/json", []string{"--json", "set", target}, jchunks, target},
	}
	type job struct {
		c cs
		k int
	}
	var jobs []job
	for _, c := range cases {
		for k := 0; k <= 4; k++ { // k = 0: no fault, only the chunked delivery (short reads)
			jobs = append(jobs, job{c, k})
		}
	}
	var runs, injectedRuns, failed, okRuns int64
	env.Parallel(len(jobs), func(w *core.Worker, i int) {
		j := jobs[i]
		_, scratch := crashWorkdir(w)
		once := func() (verdict string, detail string) {
			base.Materialize(w.Proj)
			exit, out, errOut, injected, err := crash.RunStdinFault(env.Prod, w.Proj, j.c.args, j.c.chunks, j.k, "EIO", scratch)
			if err != nil {
				env.HarnessError("stdin fault run: %v", err)
			}
			if !injected {
				return "not-injected", ""
			}
			after, _ := core.Snapshot(w.Proj)
			if exit != 0 {
				if string(after.Log()) != string(base.Log()) {
					return "failed-but-written", fmt.Sprintf("exit %d (%s) but the log changed", exit, clipS(string(errOut), 100))
				}
				return "failed", ""
			}
			id := j.c.show
			if id == "" {
				var m map[string]interface{}
				json.Unmarshal(out, &m)
				id = str(m, "id")
			}
			sh, perr := core.ParseShow(w.Spawn(core.R(w.Proj, "--json", "show", id)).Out)
			if perr != nil || sh.Body != body {
				return "accepted-with-altered-text", fmt.Sprintf("exit 0, stored body has %d bytes, the input had %d", len(sh.Body), len(body))
			}
			return "ok", ""
		}
		v, d := once()
		atomic.AddInt64(&runs, 1)
		switch v {
		case "not-injected":
			return
		case "failed":
			atomic.AddInt64(&injectedRuns, 1)
			atomic.AddInt64(&failed, 1)
			return
		case "ok":
			atomic.AddInt64(&injectedRuns, 1)
			atomic.AddInt64(&okRuns, 1)
			return
		}
		atomic.AddInt64(&injectedRuns, 1)
		sig := fmt.Sprintf("C17 kind=stdin-read-error-%s via=%s", v, j.c.name)
		if env.ViolationSeen(sig) {
			return
		}
		for r := 0; r < 4; r++ {
			if v2, _ := once(); v2 != v {
				unconfirmed.Add(1)
				return
			}
		}
		env.Violation(sig, fmt.Sprintf("`ergo %s` with the text arriving in %d chunks and EIO on read %d of standard input: %s", strings.Join(j.c.args, " "), len(j.c.chunks), j.k, d),
			map[string]interface{}{"kind": "stdin-fault", "store": base, "args": j.c.args, "chunks": j.c.chunks, "k": j.k, "body": body, "show": j.c.show})
	})
	return map[string]interface{}{"runs": runs, "runs_with_the_fault_delivered": injectedRuns, "command_failed_cleanly": failed, "command_succeeded_with_whole_text": okRuns,
		"rule": "5 commands reading text from standard input (3 x --body-stdin, 2 x JSON) x {no fault, EIO on read 1..4} of a 3-chunk input (every chunk arrives in a read of its own); exit 0 => the stored body is the whole input, exit non-zero => log unchanged"}
}

func init() {
	replayers["stdin-fault"] = func(env *core.Env, raw json.RawMessage) bool {
		var a struct {
			Store  map[string][]byte `json:"store"`
			Args   []string          `json:"args"`
			Chunks [][]byte          `json:"chunks"`
			K      int               `json:"k"`
			Body   string            `json:"body"`
			Show   string            `json:"show"`
		}
		if err := json.Unmarshal(raw, &a); err != nil {
			env.HarnessError("bad stdin-fault replay: %v", err)
		}
		w := env.W0()
		_, scratch := crashWorkdir(w)
		core.Store(a.Store).Materialize(w.Proj)
		exit, out, errOut, injected, err := crash.RunStdinFault(env.Prod, w.Proj, a.Args, a.Chunks, a.K, "EIO", scratch)
		fmt.Printf("  ergo %s with EIO on read %d of stdin: exit=%d injected=%v err=%v stderr=%s\n", strings.Join(a.Args, " "), a.K, exit, injected, err, clipS(string(errOut), 100))
		if err != nil || !injected {
			return false
		}
		after, _ := core.Snapshot(w.Proj)
		if exit != 0 {
			return string(after.Log()) != string(core.Store(a.Store).Log())
		}
		id := a.Show
		if id == "" {
			var m map[string]interface{}
			json.Unmarshal(out, &m)
			id = str(m, "id")
		}
		sh, perr := core.ParseShow(w.Spawn(core.R(w.Proj, "--json", "show", id)).Out)
		return perr != nil || sh.Body != a.Body
	}
}

// c17PlanNeighbours: one plan creates several items from one document; every text must land on its own item. Four tasks,
// every subset of them with a body (the others without), epic with and without body: each item's title and body must be
// exactly what its own entry says (an absent body is the empty text).
func c17PlanNeighbours(env *core.Env, base core.Store) map[string]interface{} {
	type job struct {
		mask int
		epic bool
	}
	var jobs []job
	for m := 0; m < 16; m++ {
		jobs = append(jobs, job{m, false}, job{m, true})
	}
	var items int64
	env.Parallel(len(jobs), func(w *core.Worker, i int) {
		j := jobs[i]
		doc := map[string]interface{}{"title": "plan epic"}
		want := map[string]string{"plan epic": ""}
		if j.epic {
			doc["body"] = "body of the epic\nsecond line"
			want["plan epic"] = "body of the epic\nsecond line"
		}
		var tasks []interface{}
		for k := 0; k < 4; k++ {
			title := fmt.Sprintf("plan task %d", k)
			t := map[string]interface{}{"title": title}
			want[title] = ""
			if j.mask&(1<<k) != 0 {
				want[title] = fmt.Sprintf("body of task %d \u00e9\n", k)
				t["body"] = want[title]
			}
			tasks = append(tasks, t)
		}
		doc["tasks"] = tasks
		base.Materialize(w.Proj)
		req := core.R("", "--json", "plan").In(jsonStr(doc))
		run := req
		run.Cwd = w.Proj
		if res := w.Run(run); res.Exit != 0 {
			report(env, "C17 kind=plan-refused-plain-text", res.String(), mkTrace(base, "plan neighbours", []core.Req{req}, Assert{Kind: "exit_nonzero", Step: 1}))
			return
		}
		obs := core.ObserveW(w, w.Proj)
		seen := map[string]bool{}
		for _, sh := range obs.Shows {
			wb, mine := want[sh.Title]
			if !mine {
				continue
			}
			seen[sh.Title] = true
			atomic.AddInt64(&items, 1)
			if sh.Body != wb {
				report(env, "C17 kind=text-altered after-the-command field=body via=plan/neighbouring-entry", fmt.Sprintf("plan with bodies on tasks %04b (epic body: %v): %q comes back with body %q, its entry says %q", j.mask, j.epic, sh.Title, sh.Body, wb),
					mkTrace(base, "plan neighbours", []core.Req{req}, Assert{Kind: "exit_zero", Step: 1}, Assert{Kind: "body_of_title_is_not", Step: 1, Text: sh.Title + "\x00" + wb}))
				return
			}
		}
		if len(seen) != len(want) {
			report(env, "C17 kind=text-altered after-the-command field=title via=plan/neighbouring-entry", fmt.Sprintf("plan with bodies on tasks %04b: only %d of %d titles come back", j.mask, len(seen), len(want)),
				mkTrace(base, "plan neighbours", []core.Req{req}, Assert{Kind: "exit_zero", Step: 1}, Assert{Kind: "obs_lacks", Step: 1, Text: "plan task 3"}))
		}
	})
	return map[string]interface{}{"documents": len(jobs), "items_compared": items, "rule": "4 tasks x every subset carrying a body x epic with/without body: every item shows exactly its own entry's title and body"}
}
