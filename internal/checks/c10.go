package checks

import (
	"fmt"
	"os"
	"path/filepath"
	"sort"
	"strings"
	"sync/atomic"
	"syscall"
	"verif/internal/sched"

	"verif/internal/core"
)

func init() { Registry["C10"] = runC10 }

type c10Case struct {
	Site string // command family, used in signatures
	Req  core.Req
	Busy bool // run while the harness holds the flock
}

// c10Catalogue enumerates requests as a cross product (command, field subset, values incl. poisoned ones).
// Nothing here decides which of them fail: every request is executed and the oracle applies to those
// that exit non-zero.
func c10Catalogue(r *Rich, thorough bool) []c10Case {
	var out []c10Case
	add := func(site string, req core.Req) { out = append(out, c10Case{Site: site, Req: req}) }
	targets := append(r.TaskIDs(), r.E1, r.E2, r.PrunedTask, r.PrunedEpic, r.Unknown)
	// other spellings of existing ids (lower case, padded, prefix): whatever ergo makes of them, a failure must change nothing
	targets = append(targets, strings.ToLower(r.ByState["todo"]), " "+r.ByState["todo"]+" ", strings.ToLower(r.ByState["doing"]), r.ByState["blocked"][:5], strings.ToLower(r.E1))
	type fv struct {
		k string
		v interface{}
	}
	fieldVals := map[string][]interface{}{
		"title":  {"new title", "  "},
		"body":   {"new body", " \n"},
		"epic":   {r.E2, r.ByState["todo"], r.Unknown, r.PrunedEpic, ""},
		"state":  {"todo", "doing", "done", "blocked", "canceled", "error", "bogus"},
		"claim":  {"", "agent-z"},
		"result": {[2]string{"docs/r.md", "second"}, [2]string{"missing.txt", "s"}, [2]string{"out.txt", ""}, [2]string{"../x", "s"}, [2]string{".ergo/plans.jsonl", "s"}, [2]string{"docs", "s"}, [2]string{"/etc/hostname", "s"}, [2]string{"out.txt", strings.Repeat("x", 121)}},
	}
	fields := []string{"title", "body", "epic", "state", "claim", "result"}
	mk := func(sel []fv) map[string]interface{} {
		m := map[string]interface{}{}
		for _, f := range sel {
			if f.k == "result" {
				p := f.v.([2]string)
				m["result_path"], m["result_summary"] = p[0], p[1]
			} else {
				m[f.k] = f.v
			}
		}
		return m
	}
	flagArgs := func(m map[string]interface{}) ([]string, bool) {
		var a []string
		for _, k := range []string{"title", "body", "epic", "state", "claim", "result_path", "result_summary"} {
			if v, ok := m[k]; ok {
				s := v.(string)
				a = append(a, "--"+strings.ReplaceAll(k, "_", "-"), s)
			}
		}
		return a, true
	}
	// all single fields and all pairs of fields, every value combination
	var combos [][]fv
	for i, f := range fields {
		for _, v := range fieldVals[f] {
			combos = append(combos, []fv{{f, v}})
			for _, g := range fields[i+1:] {
				for _, u := range fieldVals[g] {
					combos = append(combos, []fv{{f, v}, {g, u}})
				}
			}
		}
	}
	// a few triples that mix a good field, a result and a poisoned state
	combos = append(combos,
		[]fv{{"title", "x"}, {"result", [2]string{"docs/r.md", "ok"}}, {"state", "bogus"}},
		[]fv{{"claim", "agent-z"}, {"state", "done"}, {"epic", r.Unknown}},
		[]fv{{"title", "x"}, {"body", "y"}, {"epic", r.E2}, {"claim", "a"}, {"state", "error"}},
	)
	for _, t := range targets {
		for ci, c := range combos {
			m := mk(c)
			// JSON mode for every target; flags / body-stdin modes for a rotating third to bound the count
			add("set", core.R("", "--json", "set", t).In(jsonStr(m)))
			if thorough || ci%3 == 0 {
				if fa, ok := flagArgs(m); ok {
					add("set", core.R("", append([]string{"--json", "set", t}, fa...)...))
					add("set", core.R("", append([]string{"--json", "--agent", "ag", "set", t}, fa...)...))
					if _, hasBody := m["body"]; !hasBody {
						add("set", core.R("", append([]string{"--json", "set", t, "--body-stdin"}, fa...)...).In("piped body"))
					}
				}
			}
		}
		add("set", core.R("", "--json", "set", t).In(`{"titel":"x"}`))
		add("set", core.R("", "--json", "set", t).In(`{"title":"x"} {"title":"y"}`))
		add("set", core.R("", "--json", "set", t).In(`{"title":`))
		add("set", core.R("", "--json", "set", t).In(`{}`))
		add("set", core.R("", "--json", "set", t).In(``))
		add("set", core.R("", "--json", "set", t))
		add("set", core.R("", "--json", "set", t, "--body", "b", "--body-stdin").In("x"))
		add("claim-id", core.R("", "--json", "claim", t))
		add("claim-id", core.R("", "--json", "claim", t, "--agent", "ag"))
		add("claim-id", core.R("", "--json", "--agent", "ag", "claim", t))
		// the same write requests with the output switches that change what is built for the reply
		for _, q := range []string{"-q", "--quiet", "-v"} {
			add("claim-id", core.R("", q, "--json", "claim", t, "--agent", "ag"))
			add("claim-id", core.R("", q, "claim", t, "--agent", "ag"))
			add("set", core.R("", q, "--json", "set", t).In(`{"title":"quiet","state":"done"}`))
			add("set", core.R("", q, "--json", "set", t, "--title", "quiet"))
			add("set", core.R("", q, "set", t, "--state", "done"))
			add("set", core.R("", "--json", "set", t, q, "--body-stdin").In("quiet body"))
		}
		add("show", core.R("", "--json", "show", t))
		add("show", core.R("", "--json", "show", t, "--short"))
	}
	// creation
	for ci, c := range combos {
		m := mk(c)
		if _, ok := m["title"]; !ok {
			m["title"] = "created"
		}
		add("new-task", core.R("", "--json", "new", "task").In(jsonStr(m)))
		add("new-epic", core.R("", "--json", "new", "epic").In(jsonStr(m)))
		if thorough || ci%3 == 0 {
			delete(m, "result_path")
			delete(m, "result_summary")
			fa, _ := flagArgs(m)
			add("new-task", core.R("", append([]string{"--json", "new", "task"}, fa...)...))
			add("new-task", core.R("", append([]string{"--json", "--agent", "ag", "new", "task"}, fa...)...))
			if _, hasBody := m["body"]; !hasBody {
				add("new-task", core.R("", append([]string{"--json", "new", "task", "--body-stdin"}, fa...)...).In("piped body"))
			}
		}
	}
	for _, cmd := range []string{"task", "epic"} {
		add("new-"+cmd, core.R("", "--json", "new", cmd).In(`{"body":"no title"}`))
		add("new-"+cmd, core.R("", "--json", "new", cmd).In(`{"title":"x","nope":1}`))
		add("new-"+cmd, core.R("", "--json", "new", cmd).In(`{"title":"x"}{"title":"y"}`))
		add("new-"+cmd, core.R("", "--json", "new", cmd).In(`not json`))
		add("new-"+cmd, core.R("", "--json", "new", cmd))
		add("new-"+cmd, core.R("", "--json", "new", cmd, "--body-stdin").In("b"))
		add("new-"+cmd, core.R("", "--json", "new", cmd, "--title", "t", "--body", "b", "--body-stdin").In("b"))
		add("new-"+cmd, core.R("", "--json", "new", cmd, "extra"))
	}
	// sequence: all ordered pairs, triples and some 4-chains over a pool with every kind of id
	pool := []string{r.ByState["todo"], r.ByState["doing"], r.Child, r.ByState["done"], r.E1, r.E2, r.PrunedTask, r.Unknown}
	for _, a := range pool {
		add("sequence(1)", core.R("", "--json", "sequence", a))
		for _, b := range pool {
			add("sequence(2)", core.R("", "--json", "sequence", a, b))
			add("sequence-rm", core.R("", "--json", "sequence", "rm", a, b))
			for _, c := range pool {
				add("sequence(3+)", core.R("", "--json", "sequence", a, b, c))
				if thorough {
					for _, d := range pool[:5] {
						add("sequence(3+)", core.R("", "--json", "sequence", a, b, c, d))
					}
				}
			}
		}
	}
	// the output switches together, on every writer that has not met them above
	for _, q := range [][]string{{"-q", "--json"}, {"--json", "-q"}, {"-q", "-v", "--json"}, {"-q"}, {"-v", "--json"}} {
		add("sequence(2)", core.R("", append(append([]string{}, q...), "sequence", r.ByState["todo"], r.ByState["canceled"])...))
		add("sequence(3+)", core.R("", append(append([]string{}, q...), "sequence", r.ByState["todo"], r.ByState["canceled"], r.ByState["error"])...))
		add("sequence-rm", core.R("", append(append([]string{}, q...), "sequence", "rm", r.ByState["doing"], r.Child)...))
		add("new-task", core.R("", append(append([]string{}, q...), "new", "task")...).In(`{"title":"quiet one","claim":"ag"}`))
		add("new-epic", core.R("", append(append([]string{}, q...), "new", "epic", "--title", "quiet epic")...))
		add("plan", core.R("", append(append([]string{}, q...), "plan")...).In(`{"title":"P","tasks":[{"title":"a"},{"title":"b","after":["a"]}]}`))
		add("prune", core.R("", append(append([]string{}, q...), "prune", "--yes")...))
		add("compact", core.R("", append(append([]string{}, q...), "compact")...))
	}
	add("sequence-rm", core.R("", "--json", "sequence", "rm", pool[0]))
	add("sequence-rm", core.R("", "--json", "sequence", "rm", pool[0], pool[1], pool[2]))
	// 4-chains with a bad link at each position (good ids: todo, canceled, error, blocked)
	good := []string{r.ByState["todo"], r.ByState["canceled"], r.ByState["error"], r.ByState["blocked"]}
	for pos := 0; pos < 4; pos++ {
		for _, bad := range []string{r.Unknown, r.PrunedTask, r.E1, good[(pos+3)%4]} {
			ch := append([]string{}, good...)
			ch[pos] = bad
			add("sequence(3+)", core.R("", append([]string{"--json", "sequence"}, ch...)...))
		}
	}
	// would-be cycles at the end of a chain: Child depends on doing already
	add("sequence(2)", core.R("", "--json", "sequence", r.Child, r.ByState["doing"]))
	add("sequence(3+)", core.R("", "--json", "sequence", r.ByState["todo"], r.Child, r.ByState["doing"]))
	add("sequence(3+)", core.R("", "--json", "sequence", r.ByState["todo"], r.ByState["canceled"], r.ByState["todo"]))
	// claim (oldest ready)
	add("claim", core.R("", "--json", "claim"))
	add("claim", core.R("", "--json", "claim", "--epic", r.Unknown, "--agent", "ag"))
	add("claim", core.R("", "--json", "claim", "--epic", r.E2, "--agent", "ag"))
	add("claim", core.R("", "--json", "claim", "a", "b"))
	for _, q := range []string{"-q", "-v"} {
		add("claim", core.R("", q, "--json", "claim", "--agent", "ag"))
		add("claim", core.R("", q, "claim", "--epic", r.E1, "--agent", "ag"))
	}
	// plan rejections
	for _, doc := range []string{
		``, `{`, `{"title":"P"}`, `{"title":"P","tasks":[]}`, `{"title":"P","tasks":null}`, `{"tasks":[{"title":"a"}]}`,
		`{"title":" ","tasks":[{"title":"a"}]}`, `{"title":"P","tasks":[{"title":"a"},{"title":"a"}]}`,
		`{"title":"P","tasks":[{"title":"a","after":["a"]}]}`, `{"title":"P","tasks":[{"title":"a","after":["zz"]}]}`,
		`{"title":"P","tasks":[{"title":"a","after":["b"]},{"title":"b","after":["a"]}]}`,
		`{"title":"P","tasks":[{"title":"a","after":[""]}]}`, `{"title":"P","tasks":[{"title":"a"}],"x":1}`,
		`{"title":"P","tasks":[{"title":"a","x":1}]}`, `{"title":"P","tasks":[{"title":"a"}]} {"title":"Q","tasks":[{"title":"a"}]}`,
		`{"title":"P","body":" ","tasks":[{"title":"a"}]}`, `{"title":"P","tasks":[{"title":"a","body":""}]}`,
		`{"title":"P","tasks":[{"title":"a"},{"title":"b","after":["a"]},{"title":"c","after":["b","a","c"]}]}`,
		`{"title":"P","tasks":[null]}`, `{"title":"P","tasks":[{"title":"a","after":"a"}]}`, `[1]`,
	} {
		add("plan", core.R("", "--json", "plan").In(doc))
		add("plan", core.R("", "plan").In(doc))
	}
	add("plan", core.R("", "--json", "plan", "x").In(`{"title":"P","tasks":[{"title":"a"}]}`))
	// flags / usage errors of other commands
	add("list", core.R("", "--json", "list", "--ready", "--all"))
	add("list", core.R("", "--json", "list", "--epics", "--all"))
	add("list", core.R("", "--json", "list", "--epics", "--ready"))
	add("list", core.R("", "--json", "list", "--epics", "--epic", r.E1))
	add("list", core.R("", "list", "--epic", r.Unknown))
	add("list", core.R("", "--json", "list", "--nope"))
	add("prune", core.R("", "--json", "prune", "x"))
	add("prune", core.R("", "prune", "--yes"))
	add("prune", core.R("", "prune"))
	add("prune", core.R("", "-v", "prune", "--yes"))
	add("compact", core.R("", "compact"))
	add("compact", core.R("", "--json", "compact", "x"))
	add("where", core.R("", "--json", "where", "x"))
	add("init", core.R("", "--json", "init", "a", "b"))
	add("other", core.R("", "--json", "frobnicate"))
	add("other", core.R("", "--dir", "/nonexistent-dir-xyz", "--json", "list"))
	// fields too large for one event line (the log format's 10 MiB line limit): alone and next to good fields
	huge := strings.Repeat("h", 10*1024*1024+64)
	add("set-huge", core.R("", "--json", "set", r.ByState["todo"]).In(jsonStr(map[string]interface{}{"body": huge})))
	add("set-huge", core.R("", "--json", "set", r.ByState["todo"]).In(jsonStr(map[string]interface{}{"title": "renamed", "body": huge, "state": "done"})))
	add("set-huge", core.R("", "--json", "set", r.ByState["doing"]).In(jsonStr(map[string]interface{}{"title": huge})))
	add("new-huge", core.R("", "--json", "new", "task").In(jsonStr(map[string]interface{}{"title": "big", "body": huge, "claim": "ag"})))
	add("new-huge", core.R("", "--json", "new", "epic").In(jsonStr(map[string]interface{}{"title": "big", "body": huge})))
	add("plan-huge", core.R("", "--json", "plan").In(jsonStr(map[string]interface{}{"title": "P", "tasks": []map[string]interface{}{{"title": "a"}, {"title": "b", "body": huge, "after": []string{"a"}}}})))
	// lock busy: every mutating command while another descriptor holds the flock
	busy := []core.Req{
		core.R("", "--json", "new", "task").In(`{"title":"b1"}`),
		core.R("", "--json", "new", "task").In(`{"title":"b1","state":"done"}`),
		core.R("", "--json", "new", "epic").In(`{"title":"b2"}`),
		core.R("", "--json", "set", r.ByState["todo"]).In(`{"state":"done"}`),
		core.R("", "--json", "set", r.ByState["todo"]).In(`{"title":"z","result_path":"out.txt","result_summary":"s"}`),
		core.R("", "--json", "claim", "--agent", "ag"),
		core.R("", "--json", "claim", r.ByState["todo"], "--agent", "ag"),
		core.R("", "--json", "sequence", r.ByState["todo"], r.ByState["canceled"]),
		core.R("", "--json", "sequence", r.ByState["todo"], r.ByState["canceled"], r.ByState["error"]),
		core.R("", "--json", "sequence", "rm", r.ByState["doing"], r.Child),
		core.R("", "--json", "plan").In(`{"title":"P","tasks":[{"title":"a"},{"title":"b","after":["a"]}]}`),
		core.R("", "--json", "prune", "--yes"),
		core.R("", "--json", "prune"),
		core.R("", "--json", "compact"),
	}
	for _, b := range busy {
		out = append(out, c10Case{Site: "busy:" + b.Args[1], Req: b, Busy: true})
	}
	return out
}

// c10Diff classifies what a failing command changed: appended event types, rewrite, or other files.
func c10Diff(before, after core.Store) string {
	var parts []string
	lb, la := before.Log(), after.Log()
	if string(lb) != string(la) {
		if strings.HasPrefix(string(la), string(lb)) {
			evs, _ := core.ParseLog(la[len(lb):])
			seenT := map[string]bool{}
			for _, e := range evs { // set of appended event types, in order of first appearance
				if !seenT[e.Type] {
					seenT[e.Type] = true
					parts = append(parts, "+"+e.Type)
				}
			}
			if len(evs) == 0 {
				parts = append(parts, "+garbage")
			}
		} else {
			parts = append(parts, "log-rewritten")
		}
	}
	keys := map[string]bool{}
	for k := range before {
		keys[k] = true
	}
	for k := range after {
		keys[k] = true
	}
	var ks []string
	for k := range keys {
		ks = append(ks, k)
	}
	sort.Strings(ks)
	for _, k := range ks {
		if k == before.LogName() || k == after.LogName() || strings.HasPrefix(k, "D:") {
			continue
		}
		b, okb := before[k]
		a, oka := after[k]
		switch {
		case !okb:
			parts = append(parts, "created:"+k)
		case !oka:
			parts = append(parts, "removed:"+k)
		case string(a) != string(b):
			parts = append(parts, "modified:"+k)
		}
	}
	return strings.Join(parts, "")
}

func runC10(env *core.Env) {
	w0 := env.W0()
	rich := buildRich(env, w0)
	// pre-states: the rich store, the same after compact, the same under the legacy file name, and with the
	// todo task already claimed elsewhere (so "claim" requests meet a different state)
	pres := []core.Store{rich.Store}
	{
		fx := FixFrom(env, w0, rich.Store, rich.N)
		fx.Must(core.R("", "--json", "compact"))
		pres = append(pres, fx.Store())
		leg := rich.Store.Clone()
		leg[".ergo/events.jsonl"] = leg[".ergo/plans.jsonl"]
		delete(leg, ".ergo/plans.jsonl")
		pres = append(pres, leg)
		if env.Thorough() {
			fx2 := FixFrom(env, w0, rich.Store, rich.N)
			fx2.Must(core.R("", "--json", "claim", "--agent", "other"))
			fx2.Must(core.R("", "--json", "prune", "--yes"))
			pres = append(pres, fx2.Store())
		}
	}
	{
		// a hand-merged log that already contains a waits-for cycle through an epic-level dependency (the CLI refuses to
		// build one): commands that re-check the graph may now fail late; whatever fails must still change nothing
		l := newSynLog()
		e1, e2 := core.IDFor(9101), core.IDFor(9102)
		t1, t2 := core.IDFor(9103), core.IDFor(9104)
		l.Create(SynItem{ID: e1, Epic: true, Title: "CE1"})
		l.Create(SynItem{ID: e2, Epic: true, Title: "CE2"})
		l.Create(SynItem{ID: t1, Title: "ct1", In: e1})
		l.Create(SynItem{ID: t2, Title: "ct2", In: e2})
		l.Link(t2, t1)
		l.Link(e1, e2)
		cyc := rich.Store.WithLog(append(append([]byte{}, rich.Store.Log()...), l.Bytes()...))
		pres = append(pres, cyc)
	}
	{
		// finished items whose titles are short in runes and long in bytes (and the other way round is impossible): text
		// output that abbreviates them is produced after the write
		fx := FixFrom(env, w0, rich.Store, rich.N)
		fx.Must(core.R("", "--json", "set", rich.ByState["done"]).In(jsonStr(map[string]string{"title": strings.Repeat("完了した作業", 4)})))
		fx.Must(core.R("", "--json", "set", rich.ByState["canceled"]).In(jsonStr(map[string]string{"title": strings.Repeat("\U0001F600", 20)})))
		pres = append(pres, fx.Store())
	}
	// the rich store whose last writer died mid-line: every command that appends first heals the tail (a rewrite), so
	// failures now happen on the rewrite path
	pres = append(pres, tornVariants(rich.Store)[0])
	cat := c10Catalogue(rich, env.Thorough())
	conf := newConformer(len(cat)*len(pres)/300+1, 320)
	type job struct {
		pre int
		c   c10Case
	}
	var jobs []job
	for pi := range pres {
		for _, c := range cat {
			jobs = append(jobs, job{pi, c})
		}
	}
	preObs := make([]core.Obs, len(pres))
	for i, p := range pres {
		p.Materialize(w0.Proj)
		preObs[i] = core.ObserveW(w0, w0.Proj)
		if preObs[i].Fail != "" {
			env.HarnessError("pre-state %d unreadable: %s", i, preObs[i].Fail)
		}
	}
	var evals, failing, changedNothing, sitesFailing int64
	failBySite := newCounter()
	distinct := newCounter()
	samples := &sampleSet{max: 10}
	env.Parallel(len(jobs), func(w *core.Worker, i int) {
		if !env.TimeLeft() {
			return
		}
		j := jobs[i]
		pre := pres[j.pre]
		if err := pre.Materialize(w.Proj); err != nil {
			env.HarnessError("materialize: %v", err)
		}
		req := j.c.Req
		req.Cwd = w.Proj
		req.RandBase = countCreates(pre.Log()) + 100
		var lockFd = -1
		if j.c.Busy {
			fd, err := syscall.Open(filepath.Join(w.Proj, ".ergo", "lock"), syscall.O_RDONLY, 0)
			if err != nil {
				env.HarnessError("open lock: %v", err)
			}
			if err := syscall.Flock(fd, syscall.LOCK_EX|syscall.LOCK_NB); err != nil {
				env.HarnessError("flock: %v", err)
			}
			lockFd = fd
		}
		res := w.Run(req)
		if lockFd >= 0 {
			syscall.Flock(lockFd, syscall.LOCK_UN)
			syscall.Close(lockFd)
		}
		atomic.AddInt64(&evals, 1)
		if !j.c.Busy {
			conf.offer(w.Proj, pre, req, res)
		}
		if res.Panic || res.Timeout {
			report(env, "C10 kind=crash site="+j.c.Site, req.Shell()+" -> "+res.String(), mkTrace(pre, "command crashed", []core.Req{req}, Assert{Kind: "exit_nonzero", Step: 1}))
			return
		}
		if j.c.Busy && res.Exit == 0 {
			held := j.c.Req
			held.Cwd, held.RandBase, held.HoldLock = ".", -1, true
			report(env, "C10 kind=lock-ignored site="+j.c.Site, req.Shell()+" succeeded while the lock was held",
				Trace{Kind: "trace", Store: pre, Note: "the harness holds an exclusive flock on .ergo/lock while the step runs", Steps: []core.Req{held}, Shell: []string{"flock -x .ergo/lock sleep 5 & sleep 1; " + j.c.Req.Shell()}, FailIf: []Assert{{Kind: "exit_zero", Step: 1}}})
			return
		}
		if res.Exit == 0 {
			return
		}
		atomic.AddInt64(&failing, 1)
		failBySite.inc(j.c.Site)
		distinct.inc(j.c.Site + "|" + errClass(res.Err))
		after, _ := core.Snapshot(w.Proj)
		diff := c10Diff(pre, after)
		if diff == "" {
			atomic.AddInt64(&changedNothing, 1)
			samples.add(map[string]interface{}{"pre": j.pre, "cmd": req.Shell(), "exit": res.Exit, "stderr": clipS(string(res.Err), 120)})
			return
		}
		// something on disk changed: compare what a reader sees
		obs := core.ObserveW(w, w.Proj)
		if obs.Raw() == preObs[j.pre].Raw() && !strings.Contains(diff, "+") && !strings.Contains(diff, "log-rewritten") {
			// e.g. only a missing lock file was recreated: not observable state
			atomic.AddInt64(&changedNothing, 1)
			return
		}
		sig := fmt.Sprintf("C10 site=%s changed=%s", j.c.Site, diff)
		asserts := []Assert{{Kind: "exit_nonzero", Step: 1}, {Kind: "log_differs", Step: 1, Other: 0}}
		if j.c.Busy {
			held := j.c.Req
			held.Cwd, held.RandBase, held.HoldLock = ".", -1, true
			report(env, sig, req.Shell()+" (lock busy) -> "+res.String(),
				Trace{Kind: "trace", Store: pre, Note: "the harness holds an exclusive flock on .ergo/lock while the step runs", Steps: []core.Req{held}, Shell: []string{"flock -x .ergo/lock sleep 5 & sleep 1; " + j.c.Req.Shell()}, FailIf: asserts})
			return
		}
		report(env, sig, fmt.Sprintf("pre-state %d: %s exits %d (%s) but changed the store: %s", j.pre, req.Shell(), res.Exit, clipS(string(res.Err), 160), diff),
			mkTrace(pre, "failing command changed the store", []core.Req{req}, asserts...))
	})
	_ = sitesFailing
	_ = os.Stderr
	validated := conf.run(env)
	// lock busy and other failures caused by a concurrent writer: a command that exits non-zero must have contributed
	// nothing to the final state (serial equivalence over the commands that exited 0), under every interleaving up to 2 preemptions
	cf := buildConcFix(env)
	concCov := concPhase(env, "C10", []sched.Scenario{
		{Name: "set{title,claim}||claim", Store: cf.SA, Procs: []core.Req{core.R("", "--json", "set", cf.T1).In(`{"title":"T1","claim":"setter"}`), claimReq("a1")}},
		{Name: "claim-id||set{state}", Store: cf.SA, Procs: []core.Req{core.R("", "--json", "claim", cf.T2, "--agent", "b"), core.R("", "--json", "set", cf.T1).In(`{"state":"blocked"}`)}},
		{Name: "plan||claim", Store: cf.SA, Procs: []core.Req{core.R("", "--json", "plan").In(`{"title":"P","tasks":[{"title":"pa"},{"title":"pb","after":["pa"]}]}`), claimReq("a1")}},
		{Name: "new-task{claim}||claim", Store: cf.SA, Procs: []core.Req{core.R("", "--json", "new", "task").In(`{"title":"NC","claim":"creator"}`), claimReq("a1")}},
		{Name: "sequence-chain||set{state}", Store: cf.SA, Procs: []core.Req{core.R("", "--json", "sequence", cf.T1, cf.T2, cf.T3), core.R("", "--json", "set", cf.T2).In(`{"state":"done"}`)}},
		{Name: "set{result,state}||prune", Store: cf.SA, Procs: []core.Req{core.R("", "--json", "set", cf.T2).In(`{"result_path":"out.txt","result_summary":"s","state":"done"}`), core.R("", "--json", "prune", "--yes")}},
	}, func(core.Obs) string { return "" })
	// failures caused by the environment: EIO injected into every system call on a store file
	faultCov := failUnchangedPhase(env, "C10", rich.Store, c10FaultCmds(rich))
	shortCov := shortWritePhase(env, "C10", rich.Store, c10FaultCmds(rich))
	// the same on a store that has no log file yet (the first write creates it)
	noLog := core.Store{"D:.ergo": nil, ".ergo/lock": {}}
	shortCovNoLog := shortWritePhase(env, "C10", noLog, []crashCmd{
		{"new-task-first", core.R("", "--json", "new", "task").In(`{"title":"first","claim":"ag"}`)},
		{"plan-first", core.R("", "--json", "plan").In(`{"title":"P","tasks":[{"title":"a"},{"title":"b","after":["a"]}]}`)},
		{"new-epic-first", core.R("", "--json", "new", "epic").In(`{"title":"first epic","body":"b"}`)},
	})
	env.Finish("model_checking", map[string]interface{}{
		"concurrent": concCov, "io_error_phase": faultCov, "short_write_phase": shortCov, "short_write_phase_no_log_file": shortCovNoLog,
		"states": len(pres), "transitions": evals, "traces_validated_against_impl": validated,
		"evaluations": evals, "distinct_nontrivial": distinct.len(),
		"rule":       "cross product (command, field subset of {title,body,epic,state,claim,result} up to pairs + mixed triples, every value incl. poisoned ones, 10 targets incl. pruned/unknown ids, 3 input modes; all sequence pairs/triples over 8 ids; plan rejection catalogue; usage errors; every mutating command under a held flock) x pre-states; non-trivial = exits non-zero; distinct = (command family, error class)",
		"samples":    samples.list,
		"exhaustive": env.TimeLeft(), "failing_commands": failing, "failing_and_unchanged": changedNothing,
		"failing_by_site": failBySite.snapshot(), "catalogue_size": len(cat), "pre_states": len(pres),
		"unconfirmed_candidates": unconfirmed.Load(),
	}, []string{
		"byte-identical .ergo after a failing command implies identical observable state (reads are a function of the log; that is C12)",
		"the catalogue is a finite cross product over small value domains, not all inputs",
	})
}

// errClass reduces an error message to its shape (ids and paths removed).
func errClass(b []byte) string {
	s := string(b)
	if i := strings.IndexByte(s, '\n'); i >= 0 {
		s = s[:i]
	}
	s = idRe.ReplaceAllString(s, "ID")
	if len(s) > 60 {
		s = s[:60]
	}
	return s
}

// c10FaultCmds: one representative of every write path (single append, composite append, chain, prune, both rewrites).
func c10FaultCmds(rich *Rich) []crashCmd {
	return []crashCmd{
		{"new-task", core.R("", "--json", "new", "task").In(`{"title":"ft","state":"done"}`)},
		{"set", core.R("", "--json", "set", rich.ByState["todo"]).In(`{"title":"fz","state":"doing","claim":"ag"}`)},
		{"claim", core.R("", "--json", "claim", "--agent", "ag")},
		{"sequence", core.R("", "--json", "sequence", rich.ByState["todo"], rich.ByState["canceled"], rich.ByState["error"])},
		{"prune", core.R("", "--json", "prune", "--yes")},
		{"plan", core.R("", "--json", "plan").In(`{"title":"P","tasks":[{"title":"a"},{"title":"b","after":["a"]}]}`)},
		{"compact", core.R("", "--json", "compact")},
	}
}
