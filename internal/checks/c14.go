package checks

import (
	"fmt"
	"regexp"
	"sort"
	"strings"
	"sync/atomic"
	"verif/internal/sched"

	"verif/internal/core"
)

func init() { Registry["C14"] = runC14 }

var ansiRe = regexp.MustCompile("\x1b\\[[0-9;]*m")
var rowIDRe = regexp.MustCompile(`(^|\s)([A-Z2-7]{6})\s*$`)

// HumanRow is one item row of the human `list` output.
type HumanRow struct {
	ID    string
	Child bool   // carries a tree glyph
	Under string // id of the epic row it sits under ("" for root rows)
	Text  string
}

// parseHumanList extracts item rows (lines ending in an id) from human list output.
func parseHumanList(out string) []HumanRow {
	var rows []HumanRow
	curEpic := ""
	for _, ln := range strings.Split(ansiRe.ReplaceAllString(out, ""), "\n") {
		ln = strings.TrimRight(ln, "\r")
		m := rowIDRe.FindStringSubmatch(ln)
		if m == nil {
			continue
		}
		t := strings.TrimLeft(ln, " ")
		child := strings.HasPrefix(t, "├") || strings.HasPrefix(t, "└") || strings.HasPrefix(t, "│")
		r := HumanRow{ID: m[2], Child: child, Text: ln}
		if child {
			r.Under = curEpic
		} else {
			curEpic = ""
			if strings.HasPrefix(t, "Ⓔ") {
				curEpic = m[2]
			}
		}
		rows = append(rows, r)
	}
	return rows
}

func prunedIDs(log []byte) []string {
	evs, _ := core.ParseLog(log)
	seen := map[string]bool{}
	var out []string
	for _, e := range evs {
		if e.Type == "tombstone" {
			if id, _ := e.Data["id"].(string); id != "" && !seen[id] {
				seen[id] = true
				out = append(out, id)
			}
		}
	}
	sort.Strings(out)
	return out
}

type c14Op struct {
	Req      core.Req
	Cmd      string // new | set | other
	Mode     string
	ArgClass string // live-epic | plain-task | unknown | pruned | empty | own-id | none
	Target   string
}

func runC14(env *core.Env) {
	w0 := env.W0()
	fx := NewFix(env, w0)
	root := fx.Store()
	maxTasks, maxEpics := 2, 2
	c14MoreStates := []string{"error", "canceled", "blocked", "doing"}
	if env.Thorough() {
		maxTasks = 3
	}
	// second root: which children keep an epic alive across prune. E1 has two claimed children, E2 none; alphabet:
	// every state for every task, prune, compact, and moving a task out of / into E1
	var root2 core.Store
	var r2E1 string
	{
		fx2 := NewFix(env, w0)
		r2E1 = fx2.NewEpic("E1")
		fx2.NewEpic("E2")
		// both children start claimed: the first root never claims, so the two explorations share no canonical state
		fx2.NewTask(map[string]interface{}{"title": "c1", "epic": r2E1, "claim": "ag"})
		fx2.NewTask(map[string]interface{}{"title": "c2", "epic": r2E1, "claim": "ag"})
		root2 = fx2.Store()
	}
	root2Key := core.CanonLog(root2.Log())
	fromRoot2 := func(n *Node) bool { return core.CanonLog(rootOfNode(n).Log()) == root2Key }
	ops := map[string]c14Op{} // shell line -> op meta (filled by the generator, read in OnTransition)
	var opsMu = make(chan struct{}, 1)
	curKey := ""
	putOp := func(o c14Op) core.Req {
		opsMu <- struct{}{}
		ops[curKey+"|"+o.Req.Shell()] = o
		<-opsMu
		return o.Req
	}
	getOp := func(n *Node, r core.Req) c14Op {
		opsMu <- struct{}{}
		defer func() { <-opsMu }()
		return ops[n.Key+"|"+r.Shell()]
	}
	gen := func(n *Node) []core.Req {
		curKey = n.Key // Ops is called sequentially by the BFS driver
		obs := n.Aux.(core.Obs)
		if obs.Fail != "" {
			return nil
		}
		var tasks, epics []string
		for _, it := range obs.All {
			tasks = append(tasks, it.ID)
		}
		for _, it := range obs.Epics {
			epics = append(epics, it.ID)
		}
		if fromRoot2(n) {
			var out []core.Req
			for _, t := range tasks {
				for _, stt := range []string{"todo", "done", "error", "canceled", "blocked", "doing"} {
					out = append(out, putOp(c14Op{Req: core.R("", "--json", "set", t).In(`{"state":"` + stt + `","claim":"ag"}`), Cmd: "other"}))
				}
				out = append(out, putOp(c14Op{Req: core.R("", "--json", "set", t).In(`{"epic":""}`), Cmd: "other"}))
				out = append(out, putOp(c14Op{Req: core.R("", "--json", "set", t).In(`{"epic":"` + r2E1 + `"}`), Cmd: "other"}))
			}
			out = append(out, putOp(c14Op{Req: core.R("", "--json", "prune", "--yes"), Cmd: "other"}))
			out = append(out, putOp(c14Op{Req: core.R("", "--json", "compact"), Cmd: "other"}))
			return out
		}
		pruned := prunedIDs(n.Store.Log())
		if len(pruned) > 2 {
			pruned = pruned[:2]
		}
		type cand struct{ id, class string }
		var cands []cand
		for _, e := range epics {
			cands = append(cands, cand{e, "live-epic"})
		}
		for _, t := range tasks {
			cands = append(cands, cand{t, "plain-task"})
		}
		cands = append(cands, cand{"ZZZZZZ", "unknown"})
		for _, p := range pruned {
			cands = append(cands, cand{p, "pruned"})
		}
		// a live epic id with surrounding white space or in lower case: whether ergo takes it for the epic or refuses it is
		// not judged - but if it accepts, the task must end up under a live epic (the state invariant below)
		if len(epics) > 0 {
			cands = append(cands, cand{epics[0] + " ", "odd-spelling"}, cand{"\t" + epics[0], "odd-spelling"}, cand{epics[0] + "\n", "odd-spelling"}, cand{strings.ToLower(epics[0]), "odd-spelling"})
		}
		var out []core.Req
		tombs := strings.Count(string(n.Store.Log()), `"type":"tombstone"`)
		if len(tasks) < maxTasks && tombs <= 3 {
			for _, c := range cands {
				out = append(out, putOp(c14Op{Req: core.R("", "--json", "new", "task").In(jsonStr(map[string]string{"title": "t", "epic": c.id})), Cmd: "new", Mode: "json", ArgClass: c.class}))
				out = append(out, putOp(c14Op{Req: core.R("", "--json", "new", "task", "--title", "t", "--epic", c.id), Cmd: "new", Mode: "flags", ArgClass: c.class}))
				out = append(out, putOp(c14Op{Req: core.R("", "--json", "new", "task", "--title", "t", "--epic", c.id, "--body-stdin").In("b"), Cmd: "new", Mode: "bodystdin", ArgClass: c.class}))
			}
			out = append(out, putOp(c14Op{Req: core.R("", "--json", "new", "task").In(`{"title":"t","epic":""}`), Cmd: "new", Mode: "json", ArgClass: "empty"}))
			out = append(out, putOp(c14Op{Req: core.R("", "--json", "new", "task").In(`{"title":"t"}`), Cmd: "new", Mode: "json", ArgClass: "none"}))
			if len(epics) < maxEpics {
				out = append(out, putOp(c14Op{Req: core.R("", "--json", "plan").In(`{"title":"P","tasks":[{"title":"p1"}]}`), Cmd: "other"}))
			}
		}
		if len(epics) < maxEpics && tombs <= 3 {
			out = append(out, putOp(c14Op{Req: core.R("", "--json", "new", "epic").In(`{"title":"e"}`), Cmd: "other"}))
			for _, c := range cands[:1] {
				out = append(out, putOp(c14Op{Req: core.R("", "--json", "new", "epic").In(jsonStr(map[string]string{"title": "e", "epic": c.id})), Cmd: "new-epic", Mode: "json", ArgClass: c.class}))
			}
		}
		for _, t := range tasks {
			for _, c := range append(cands, cand{"", "empty"}) {
				class := c.class
				if c.id == t {
					class = "own-id"
				}
				out = append(out, putOp(c14Op{Req: core.R("", "--json", "set", t).In(jsonStr(map[string]string{"epic": c.id})), Cmd: "set", Mode: "json", ArgClass: class, Target: t}))
				if c.id != "" {
					out = append(out, putOp(c14Op{Req: core.R("", "--json", "set", t, "--epic", c.id), Cmd: "set", Mode: "flags", ArgClass: class, Target: t}))
					out = append(out, putOp(c14Op{Req: core.R("", "--json", "set", t, "--epic", c.id, "--body-stdin").In("b"), Cmd: "set", Mode: "bodystdin", ArgClass: class, Target: t}))
				}
			}
			out = append(out, putOp(c14Op{Req: core.R("", "--json", "set", t).In(`{"state":"done"}`), Cmd: "other"}))
			out = append(out, putOp(c14Op{Req: core.R("", "--json", "set", t).In(`{"state":"todo"}`), Cmd: "other"}))
			// the other states (which of them count as open work decides whether prune may take the epic)
			for _, stt := range c14MoreStates {
				if !env.Thorough() {
					break // quick tier: the other states are explored from the second root only
				}
				out = append(out, putOp(c14Op{Req: core.R("", "--json", "set", t).In(`{"state":"` + stt + `","claim":"ag"}`), Cmd: "other"}))
			}
		}
		for _, e := range epics {
			for _, c := range cands {
				if c.id == e {
					continue
				}
				out = append(out, putOp(c14Op{Req: core.R("", "--json", "set", e).In(jsonStr(map[string]string{"epic": c.id})), Cmd: "set-epic", Mode: "json", ArgClass: c.class, Target: e}))
			}
		}
		out = append(out, putOp(c14Op{Req: core.R("", "--json", "prune", "--yes"), Cmd: "other"}))
		out = append(out, putOp(c14Op{Req: core.R("", "--json", "compact"), Cmd: "other"}))
		return out
	}

	var statesChecked, accBad, rejGood, rejBad, accGood int64
	classes := newCounter()
	samples := &sampleSet{max: 10}
	checkState := func(w *core.Worker, n *Node, via []core.Req) {
		obs := n.Aux.(core.Obs)
		atomic.AddInt64(&statesChecked, 1)
		if obs.Fail != "" {
			report(env, "C14 kind=store-unreadable", obs.Fail, mkTrace(pathRoot(n, root), "reads fail", via, Assert{Kind: "read_fails", Step: len(via)}))
			return
		}
		live := map[string]bool{}
		for _, e := range obs.Epics {
			live[e.ID] = true
			if e.EpicID != "" || obs.Shows[e.ID].EpicID != "" {
				report(env, "C14 kind=epic-has-epic", fmt.Sprintf("epic %s has epic_id %q", e.ID, e.EpicID), mkTrace(pathRoot(n, root), "epic belongs to something", via, Assert{Kind: "exit_zero", Step: len(via)}))
			}
		}
		for _, t := range obs.All {
			ep := obs.Shows[t.ID].EpicID
			if ep != t.EpicID {
				report(env, "C14 kind=list-show-disagree", fmt.Sprintf("task %s: list epic_id=%q show epic_id=%q", t.ID, t.EpicID, ep), mkTrace(pathRoot(n, root), "list/show disagree", via))
			}
			if ep != "" && !live[ep] {
				report(env, "C14 kind=dangling-epic-ref", fmt.Sprintf("task %s has epic_id %q which is not a live epic (path: %v)", t.ID, ep, n.Shell()),
					mkTrace(pathRoot(n, root), "task references a non-epic", via, Assert{Kind: "obs_contains", Step: len(via), Text: "epic=" + ep}))
			}
		}
		// human list --all: every live item in exactly one row, children under their own epic
		res := w.Run(core.R(w.Proj, "list", "--all").In(""))
		rows := parseHumanList(string(res.Out))
		cnt := map[string]int{}
		under := map[string]string{}
		for _, r := range rows {
			cnt[r.ID]++
			under[r.ID] = r.Under
		}
		for _, t := range obs.All {
			if cnt[t.ID] != 1 {
				report(env, fmt.Sprintf("C14 kind=human-list-rows task-rows=%d", cnt[t.ID]), fmt.Sprintf("task %s (epic_id=%q) appears in %d rows of `list --all`", t.ID, t.EpicID, cnt[t.ID]),
					mkTrace(pathRoot(n, root), "task missing from human list", append(append([]core.Req{}, via...), core.R("", "list", "--all").In("")), Assert{Kind: "out_lacks", Step: len(via) + 1, Text: t.ID}))
			} else if under[t.ID] != t.EpicID {
				report(env, "C14 kind=human-list-wrong-parent", fmt.Sprintf("task %s epic_id=%q is shown under %q", t.ID, t.EpicID, under[t.ID]), mkTrace(pathRoot(n, root), "task under wrong epic", via))
			}
		}
		for _, e := range obs.Epics {
			if cnt[e.ID] != 1 {
				report(env, fmt.Sprintf("C14 kind=human-list-rows epic-rows=%d", cnt[e.ID]), fmt.Sprintf("epic %s appears in %d rows", e.ID, cnt[e.ID]), mkTrace(pathRoot(n, root), "epic row count", via))
			}
		}
	}

	b := &BFS{Env: env, Roots: []core.Store{root, root2}, KeyFn: graphKey, Ops: gen, MaxStates: 200000}
	b.Conf = newConformer(50, 300)
	b.OnState = func(w *core.Worker, n *Node) { checkState(w, n, n.Path) }
	b.OnTransition = func(w *core.Worker, n *Node, req core.Req, res core.Res, after core.Store) {
		op := getOp(n, req)
		if res.Panic || res.Timeout {
			report(env, "C14 kind=crash", req.Shell()+" "+res.String(), mkTrace(n.Store, "crash", []core.Req{req}, Assert{Kind: "exit_nonzero", Step: 1}))
			return
		}
		if op.Cmd == "other" {
			return
		}
		classes.inc(fmt.Sprintf("%s/%s arg=%s exit0=%v", op.Cmd, op.Mode, op.ArgClass, res.Exit == 0))
		if op.ArgClass == "odd-spelling" && op.Cmd != "set-epic" && op.Cmd != "new-epic" {
			classes.inc(fmt.Sprintf("%s/%s arg=%s exit0=%v", op.Cmd, op.Mode, op.ArgClass, res.Exit == 0))
			if res.Exit != 0 && string(after.Log()) != string(n.Store.Log()) {
				report(env, fmt.Sprintf("C14 kind=rejected-but-changed cmd=%s arg=%s", op.Cmd, op.ArgClass), req.Shell()+" exits non-zero but the log changed", mkTrace(n.Store, "rejected request changed the store", []core.Req{req}, Assert{Kind: "exit_nonzero", Step: 1}, Assert{Kind: "log_differs", Step: 1, Other: 0}))
			}
			return
		}
		bad := op.ArgClass == "plain-task" || op.ArgClass == "unknown" || op.ArgClass == "pruned" || op.ArgClass == "own-id"
		if op.Cmd == "set-epic" || op.Cmd == "new-epic" {
			bad = true // epics never belong to anything, whatever the argument
		}
		switch {
		case bad && res.Exit == 0:
			atomic.AddInt64(&accBad, 1)
			report(env, fmt.Sprintf("C14 kind=bad-epic-accepted cmd=%s arg=%s", op.Cmd, op.ArgClass),
				fmt.Sprintf("%s (mode %s) exits 0", req.Shell(), op.Mode), mkTrace(n.Store, "epic argument must be rejected", []core.Req{req}, Assert{Kind: "exit_zero", Step: 1}))
		case bad:
			atomic.AddInt64(&rejBad, 1)
			if string(after.Log()) != string(n.Store.Log()) {
				sig := fmt.Sprintf("C14 kind=rejected-but-changed cmd=%s arg=%s", op.Cmd, op.ArgClass)
				report(env, sig, req.Shell()+" exits non-zero but the log changed", mkTrace(n.Store, "rejected request changed the store", []core.Req{req}, Assert{Kind: "exit_nonzero", Step: 1}, Assert{Kind: "log_differs", Step: 1, Other: 0}))
			}
		case res.Exit == 0:
			atomic.AddInt64(&accGood, 1)
		default:
			atomic.AddInt64(&rejGood, 1)
		}
		samples.add(map[string]interface{}{"state": n.Key, "cmd": req.Shell(), "arg": op.ArgClass, "exit": res.Exit})
	}
	b.Run()
	// a store with several hundred prunable items (180 one-task finished epics): after one and after two `prune --yes`
	// no task may name an epic that is not live
	bigCov := map[string]interface{}{}
	{
		l := newSynLog()
		for i := 0; i < 180; i++ {
			e, t := core.IDFor(int64(50000+2*i)), core.IDFor(int64(50001+2*i))
			l.Create(SynItem{ID: e, Epic: true, Title: fmt.Sprintf("finished epic %d", i)})
			l.Create(SynItem{ID: t, Title: fmt.Sprintf("finished task %d", i), In: e})
			l.State(t, []string{"done", "canceled"}[i%2])
		}
		st := core.Store{".ergo/plans.jsonl": l.Bytes(), ".ergo/lock": nil}
		st.Materialize(w0.Proj)
		var steps []core.Req
		dangling := 0
		for round := 1; round <= 2 && dangling == 0; round++ {
			w0.Run(core.R(w0.Proj, "--json", "prune", "--yes"))
			steps = append(steps, core.R("", "--json", "prune", "--yes"))
			obs := core.ObserveW(w0, w0.Proj)
			live := map[string]bool{}
			for _, e := range obs.Epics {
				live[e.ID] = true
			}
			for _, t := range obs.All {
				if t.EpicID != "" && !live[t.EpicID] {
					dangling++
				}
			}
			if dangling > 0 || obs.Fail != "" {
				report(env, "C14 kind=dangling-epic-ref after=large-prune", fmt.Sprintf("180 one-task finished epics: after %d x `prune --yes` %d listed tasks name an epic that is not live (reads: %q)", round, dangling, obs.Fail),
					mkTrace(st, "360 prunable items", steps, Assert{Kind: "exit_zero", Step: len(steps)}))
			}
		}
		bigCov = map[string]interface{}{"finished_epics": 180, "tasks_with_dangling_epic": dangling}
	}
	validated := b.Conf.run(env)
	cf := buildConcFix(env)
	concCov := concPhase(env, "C14", []sched.Scenario{
		{Name: "prune||new-task-in-empty-epic", Store: cf.SA, Procs: []core.Req{core.R("", "--json", "prune", "--yes"), core.R("", "--json", "new", "task").In(jsonStr(map[string]string{"title": "late child", "epic": cf.E2}))}},
		{Name: "prune||set-epic-to-empty-epic", Store: cf.SA, Procs: []core.Req{core.R("", "--json", "prune", "--yes"), core.R("", "--json", "set", cf.T1).In(jsonStr(map[string]string{"epic": cf.E2}))}},
		{Name: "prune||plan", Store: cf.SA, Procs: []core.Req{core.R("", "--json", "prune", "--yes"), core.R("", "--json", "plan").In(`{"title":"P","tasks":[{"title":"pa"}]}`)}},
	}, invC14)
	env.Finish("model_checking", map[string]interface{}{
		"large_prune": bigCov,
		"states":      b.States, "transitions": b.Transitions, "traces_validated_against_impl": validated, "concurrent": concCov,
		"samples": samples.list, "exhaustive": b.Exhaustive, "cap_hit": b.CapHit, "bfs_depth": b.DepthDone,
		"bound":                      fmt.Sprintf("<=%d tasks, <=%d epics live, <=3 tombstones; second root E1:{c1,c2} E2:{} with all six states per task, prune, compact, moves out of/into E1; BFS to fixpoint on the canonical graph", maxTasks, maxEpics),
		"bad_epic_requests_rejected": rejBad, "bad_epic_requests_accepted": accBad, "valid_epic_requests_accepted": accGood, "valid_epic_requests_rejected": rejGood,
		"states_checked": statesChecked, "distinct_outcome_classes": classes.len(), "outcome_classes": classes.snapshot(),
		"unconfirmed_candidates": unconfirmed.Load(),
	}, []string{"state key = canonical labelled graph (kind, state, claimed, epic, deps, result count per item in creation order, tombstone count)"})
}

// stripCwd turns the executed request back into the generator's form (Cwd "").
func (n *Node) stripCwd(r core.Req, w *core.Worker) core.Req {
	r.Cwd = ""
	return r
}

// pathRoot: replay traces of state invariants start from the BFS root and replay the whole path.
func pathRoot(n *Node, root core.Store) core.Store { return rootOfNode(n) }
