package checks

import (
	"encoding/json"
	"fmt"
	"time"

	"verif/internal/core"
)

// SynItem describes one item of a synthesised log (the events ergo itself would have written).
type SynItem struct {
	ID     string
	Epic   bool
	Title  string
	Body   string
	In     string // epic id ("" = root)
	State  string // todo|doing|done|blocked|canceled|error
	Claim  string // claimant ("" = none)
	Pruned bool
	// history variants (the final graph is the same; only the events that lead to it differ)
	CreatedIn *string // created under this epic ("" root), then re-assigned to In by an `epic` event
	Reopened  bool    // went done -> todo before reaching State
	Churned   bool    // was claimed by someone else and unclaimed before reaching State/Claim
}

type SynEdge struct{ From, To string } // From depends on To

// SynLog writes the event log for a configuration: creates in order, then links, then per item
// claim+state events, then tombstones. Timestamps are distinct and increasing.
type SynLog struct {
	t     time.Time
	lines [][]byte
}

func newSynLog() *SynLog {
	return &SynLog{t: time.Date(2026, 1, 2, 3, 4, 5, 0, time.UTC)}
}

func (l *SynLog) tick() string {
	l.t = l.t.Add(1500 * time.Millisecond)
	return l.t.Format(time.RFC3339Nano)
}

func (l *SynLog) ev(typ, ts string, data map[string]interface{}) {
	d, _ := json.Marshal(data)
	b, _ := json.Marshal(map[string]interface{}{"type": typ, "ts": ts, "data": json.RawMessage(d)})
	l.lines = append(l.lines, b)
}

func (l *SynLog) Create(it SynItem) {
	ts := l.tick()
	typ := "new_task"
	if it.Epic {
		typ = "new_epic"
	}
	l.ev(typ, ts, map[string]interface{}{"id": it.ID, "uuid": "00000000-0000-4000-8000-" + fmt.Sprintf("%012x", len(l.lines)),
		"epic_id": it.In, "state": "todo", "title": it.Title, "body": it.Body, "created_at": ts})
}

func (l *SynLog) Link(from, to string) {
	l.ev("link", l.tick(), map[string]interface{}{"from_id": from, "to_id": to, "type": "depends"})
}

func (l *SynLog) Unlink(from, to string) {
	l.ev("unlink", l.tick(), map[string]interface{}{"from_id": from, "to_id": to, "type": "depends"})
}

func (l *SynLog) Claim(id, agent string) {
	ts := l.tick()
	l.ev("claim", ts, map[string]interface{}{"id": id, "agent_id": agent, "ts": ts})
}

func (l *SynLog) State(id, st string) {
	ts := l.tick()
	l.ev("state", ts, map[string]interface{}{"id": id, "state": st, "ts": ts})
}

func (l *SynLog) Epic(id, epic string) {
	ts := l.tick()
	l.ev("epic", ts, map[string]interface{}{"id": id, "epic_id": epic, "ts": ts})
}

func (l *SynLog) Unclaim(id string) {
	ts := l.tick()
	l.ev("unclaim", ts, map[string]interface{}{"id": id, "ts": ts})
}

func (l *SynLog) Tombstone(id string) {
	ts := l.tick()
	l.ev("tombstone", ts, map[string]interface{}{"id": id, "ts": ts})
}

func (l *SynLog) Bytes() []byte {
	var out []byte
	for _, ln := range l.lines {
		out = append(out, ln...)
		out = append(out, '\n')
	}
	return out
}

// synStore renders a configuration as a store (plans.jsonl + lock).
func synStore(items []SynItem, edges []SynEdge) core.Store {
	return synStoreNoise(items, edges, nil)
}

// synStoreNoise additionally links and then unlinks every edge in noise (net effect: none).
func synStoreNoise(items []SynItem, edges, noise []SynEdge) core.Store {
	return synStoreOpts(items, edges, noise, false)
}

// synStoreOpts: reverseCreates writes the create events in reverse log order while keeping their timestamps
// (a hand-merged log: position in the file and creation time disagree).
func synStoreOpts(items []SynItem, edges, noise []SynEdge, reverseCreates bool) core.Store {
	l := newSynLog()
	for _, it := range items {
		c := it
		if it.CreatedIn != nil {
			c.In = *it.CreatedIn
		}
		l.Create(c)
	}
	if reverseCreates {
		for i, j := 0, len(l.lines)-1; i < j; i, j = i+1, j-1 {
			l.lines[i], l.lines[j] = l.lines[j], l.lines[i]
		}
	}
	for _, e := range noise {
		l.Link(e.From, e.To)
	}
	for _, e := range edges {
		l.Link(e.From, e.To)
	}
	for _, it := range items {
		if it.CreatedIn != nil && !it.Epic {
			l.Epic(it.ID, it.In)
		}
	}
	for _, e := range noise {
		l.Unlink(e.From, e.To)
	}
	for _, it := range items {
		if it.Epic {
			continue
		}
		if it.Churned {
			l.Claim(it.ID, "someone-else")
			l.State(it.ID, "doing")
			l.Unclaim(it.ID)
			l.State(it.ID, "todo")
		}
		if it.Reopened {
			l.State(it.ID, "done")
			l.State(it.ID, "todo")
		}
		// the order ergo itself uses: claim before state; todo/done/canceled would clear a claim, so a claimed
		// todo task is written as state-less claim (what a crash between the two writes of `claim` leaves).
		switch {
		case it.State == "todo" && it.Claim != "":
			l.Claim(it.ID, it.Claim)
		case it.State == "todo":
		case it.State == "error":
			l.Claim(it.ID, it.Claim)
			l.State(it.ID, "doing")
			l.State(it.ID, "error")
		default:
			if it.Claim != "" {
				l.Claim(it.ID, it.Claim)
			}
			l.State(it.ID, it.State)
		}
	}
	for _, it := range items {
		if it.Pruned {
			l.Tombstone(it.ID)
		}
	}
	return core.Store{".ergo/plans.jsonl": l.Bytes(), ".ergo/lock": {}}
}
