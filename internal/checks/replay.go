package checks

import (
	"encoding/json"
	"fmt"
	"os"
	"path/filepath"
	"strings"
	"sync"
	"syscall"

	"verif/internal/core"
)

// Trace is the replayable artefact of the sequential engines: a store, literal commands, and the
// conjunction of simple facts that together constitute the violation.
type Trace struct {
	Kind   string            `json:"kind"` // "trace"
	Store  map[string][]byte `json:"store"`
	Steps  []core.Req        `json:"steps"`               // Cwd is relative to the project root
	Alt    []core.Req        `json:"alt_steps,omitempty"` // a second branch run from the same store (differential facts)
	AltSt  map[string][]byte `json:"alt_store,omitempty"` // if set, the second branch starts from this store instead
	FailIf []Assert          `json:"fail_if"`
	Shell  []string          `json:"shell"` // the same commands as shell lines, for humans
	Note   string            `json:"note,omitempty"`
}

// Assert is one fact about the replayed run. Step 0 is the initial store, step i the state after Steps[i-1].
type Assert struct {
	Kind  string `json:"kind"`            // exit_zero | exit_nonzero | obs_differs | obs_same | out_contains | out_lacks | err_contains | log_differs | log_same | obs_contains | obs_lacks | read_fails
	Step  int    `json:"step"`            // which step
	Other int    `json:"other,omitempty"` // second step for comparisons
	Text  string `json:"text,omitempty"`
}

func mkTrace(st core.Store, note string, steps []core.Req, failIf ...Assert) Trace {
	t := Trace{Kind: "trace", Store: st, Note: note, FailIf: failIf}
	for _, s := range steps {
		s.Cwd = "."
		t.Steps = append(t.Steps, s)
		t.Shell = append(t.Shell, s.Shell())
	}
	return t
}

// runTrace executes a trace with spawned processes and evaluates FailIf. Returns true if all hold.
func runTrace(env *core.Env, t Trace, verbose bool) bool {
	root := filepath.Join(env.Scratch, "replay", "proj")
	os.MkdirAll(root, 0o755)
	if err := core.Store(t.Store).Materialize(root); err != nil {
		env.HarnessError("replay materialize: %v", err)
	}
	run := func(r core.Req) core.Res {
		bin := env.Prod
		if r.RandBase >= 0 || len(r.RandHex) > 0 {
			bin = env.Verif
			if r.RandBase < 0 {
				r.RandBase = 0
			}
		}
		if r.HoldLock {
			if fd, err := syscall.Open(filepath.Join(r.Cwd, ".ergo", "lock"), syscall.O_RDONLY, 0); err == nil {
				defer syscall.Close(fd)
				if syscall.Flock(fd, syscall.LOCK_EX|syscall.LOCK_NB) == nil {
					defer syscall.Flock(fd, syscall.LOCK_UN)
				}
			}
		}
		return core.Spawn{Bin: bin}.Run(r)
	}
	type snap struct {
		res core.Res
		obs core.Obs
		log string
	}
	snaps := make([]snap, len(t.Steps)+1)
	take := func(i int) {
		snaps[i].obs = core.Observe(run, root)
		st, _ := core.Snapshot(root)
		snaps[i].log = string(st.Log())
	}
	take(0)
	for i, s := range t.Steps {
		s.Cwd = filepath.Join(root, s.Cwd)
		res := run(s)
		snaps[i+1].res = res
		take(i + 1)
		if verbose {
			fmt.Printf("  step %d: %s\n    -> %s\n", i+1, t.Shell[i], res)
		}
	}
	// alternative branch from the same initial store
	var altLast core.Res
	var altObs core.Obs
	if len(t.Alt) > 0 {
		altStore := core.Store(t.Store)
		if t.AltSt != nil {
			altStore = core.Store(t.AltSt)
		}
		if err := altStore.Materialize(root); err != nil {
			env.HarnessError("replay materialize: %v", err)
		}
		for i, s := range t.Alt {
			s.Cwd = filepath.Join(root, s.Cwd)
			altLast = run(s)
			if verbose {
				fmt.Printf("  alt step %d: %s\n    -> %s\n", i+1, s.Shell(), altLast)
			}
		}
		altObs = core.Observe(run, root)
	}
	all := true
	for _, a := range t.FailIf {
		if a.Step < 0 || a.Step > len(t.Steps) || a.Other < 0 || a.Other > len(t.Steps) {
			env.HarnessError("bad assert %+v", a)
		}
		s, o := snaps[a.Step], snaps[a.Other]
		var ok bool
		switch a.Kind {
		case "exit_zero":
			ok = s.res.Exit == 0
		case "exit_nonzero":
			ok = s.res.Exit != 0
		case "obs_differs":
			ok = s.obs.Norm(nil) != o.obs.Norm(nil)
		case "raw_obs_differs": // byte-exact comparison incl. timestamps (only meaningful when the steps in between create nothing)
			ok = s.obs.Raw() != o.obs.Raw()
		case "obs_same":
			ok = s.obs.Norm(nil) == o.obs.Norm(nil)
		case "log_differs":
			ok = core.CanonLog([]byte(s.log)) != core.CanonLog([]byte(o.log))
		case "log_same":
			ok = core.CanonLog([]byte(s.log)) == core.CanonLog([]byte(o.log))
		case "out_contains":
			ok = strings.Contains(string(s.res.Out), a.Text)
		case "out_lacks":
			ok = !strings.Contains(string(s.res.Out), a.Text)
		case "err_contains":
			ok = strings.Contains(string(s.res.Err), a.Text)
		case "dep_invariant_broken": // the dependency relation observed after the step breaks an invariant other than acyclicity
			msg := checkDepInvariants(s.obs)
			ok = s.obs.Fail == "" && msg != "" && invClass(msg) != "cycle"
		case "err_empty":
			ok = len(strings.TrimSpace(string(s.res.Err))) == 0
		case "obs_contains":
			ok = strings.Contains(s.obs.Norm(nil), a.Text)
		case "obs_lacks":
			ok = !strings.Contains(s.obs.Norm(nil), a.Text)
		case "alt_differs": // main branch and alternative branch end differently (exit code of the last step or observable state)
			last := snaps[len(t.Steps)]
			ok = last.res.Exit != altLast.Exit || last.obs.Norm(nil) != altObs.Norm(nil)
		case "alt_exit_differs": // the last step of the main branch and of the alternative branch exit differently (success vs failure)
			last := snaps[len(t.Steps)]
			ok = (last.res.Exit == 0) != (altLast.Exit == 0)
		case "alt_differs_by_title": // like alt_differs, but ids are random in both branches: compare through the title map
			last := snaps[len(t.Steps)]
			ok = last.obs.Fail != "" || last.obs.Norm(last.obs.TitleMap()) != altObs.Norm(altObs.TitleMap())
		case "has_waits_for_cycle": // the effective waits-for relation observed after the step contains a cycle
			rel, _ := waitsFor(s.obs)
			ok = s.obs.Fail == "" && findCycle(rel) != nil
		case "show_differs":
			ok = s.obs.RawShow[a.Text] != o.obs.RawShow[a.Text]
		case "read_fails":
			ok = s.obs.Fail != ""
		case "body_of_title_is_not": // Text = title NUL body: the item with that title exists and its body is something else
			parts := strings.SplitN(a.Text, "\x00", 2)
			for _, sh := range s.obs.Shows {
				if sh.Title == parts[0] && sh.Body != parts[1] {
					ok = true
				}
			}
		default:
			env.HarnessError("unknown assert kind %q", a.Kind)
		}
		if verbose {
			fmt.Printf("  fact %-12s step=%d other=%d text=%q : %v\n", a.Kind, a.Step, a.Other, a.Text, ok)
		}
		all = all && ok
	}
	return all
}

// confirm re-executes a trace with spawned processes. Normally it must fail 5 times out of 5. Every spawned run in
// which all facts of the trace hold is by itself a demonstration on the real binaries, so a trace that fails in some
// runs and not in others (what the commands do varies from run to run on the same store - e.g. with Go's map iteration
// order) is believed once it has failed 5 times within at most 40 runs; none within the first 12 ends the attempt.
func confirm(env *core.Env, t Trace) (ok bool, note string) {
	repro, runs := 0, 0
	for runs < 40 && repro < 5 {
		runs++
		if runTrace(env, t, false) {
			repro++
		} else if repro == 0 && runs >= 12 {
			return false, ""
		}
	}
	if repro < 5 {
		return false, ""
	}
	if runs > repro {
		note = fmt.Sprintf(" [reproduced in %d of %d runs on the same store with the same commands: the outcome varies from run to run]", repro, runs)
	}
	return true, note
}

var confirmMu = make(chan struct{}, 1)
var unconfMu sync.Mutex
var unconfSeen = map[string]bool{}

// report confirms (serialised: the replay dir is shared) and records a violation.
func report(env *core.Env, sig, detail string, t Trace) {
	if env.ViolationSeen(sig) {
		return
	}
	unconfMu.Lock()
	skip := unconfSeen[sig]
	unconfMu.Unlock()
	if skip {
		return
	}
	confirmMu <- struct{}{}
	defer func() { <-confirmMu }()
	if env.ViolationSeen(sig) {
		return
	}
	ok, note := confirm(env, t)
	if !ok {
		unconfMu.Lock()
		first := !unconfSeen[sig]
		unconfSeen[sig] = true
		unconfMu.Unlock()
		if first {
			env.Logf("UNCONFIRMED candidate (server-only, not reported): %s :: %s", sig, clipS(detail, 600))
			unconfirmed.Add(1)
		}
		return
	}
	env.Violation(sig, detail+note, t)
}

func GenericReplay(env *core.Env, raw json.RawMessage) bool {
	var probe struct {
		Kind string `json:"kind"`
	}
	json.Unmarshal(raw, &probe)
	switch probe.Kind {
	case "trace":
		var t Trace
		if err := json.Unmarshal(raw, &t); err != nil {
			env.HarnessError("bad trace: %v", err)
		}
		return runTrace(env, t, true)
	default:
		if fn, ok := replayers[probe.Kind]; ok {
			return fn(env, raw)
		}
		env.HarnessError("unknown replay kind %q", probe.Kind)
	}
	return false
}
