package checks

import (
	"encoding/json"
	"fmt"
	"path/filepath"
	"sort"
	"strings"
	"sync/atomic"
	"syscall"
	"time"

	"verif/internal/core"
)

func init() { Registry["C08"] = runC08 }

type c08Opt struct {
	State, Claim string
	Pruned       bool
}

type c08Cfg struct {
	Tasks   []c08Opt
	In      []int    // 0 root, 1 E1, 2 E2
	Deps    [][2]int // i depends on j
	EpicDep int      // 0 none, 1 E1->E2 (E1 depends on E2), 2 E2->E1
	E2Gone  bool     // E2 pruned (only when it has no live child)
	Variant int      // history variant: 0 plain, 1 every task re-assigned from another epic, 2 link/unlink noise, 3 reopened, 4 claim churn, 5 create events in reverse log order, 6 legacy epic state/claim events, 7 created unfiled then filed, 8 a claim merged in behind the close (C09 only)
}

var c08Full = []c08Opt{
	{"todo", "", false}, {"todo", "c", false}, {"doing", "c", false}, {"blocked", "", false}, {"blocked", "c", false},
	{"error", "c", false}, {"done", "", false}, {"canceled", "", false}, {"done", "", true},
}
var c08Small = []c08Opt{{"todo", "", false}, {"doing", "c", false}, {"done", "", false}, {"done", "", true}}

// all acyclic dependency relations on n nodes (as edge lists).
func dags(n int) [][][2]int {
	var pairs [][2]int
	for i := 0; i < n; i++ {
		for j := 0; j < n; j++ {
			if i != j {
				pairs = append(pairs, [2]int{i, j})
			}
		}
	}
	var out [][][2]int
	for mask := 0; mask < 1<<len(pairs); mask++ {
		var es [][2]int
		for k, p := range pairs {
			if mask&(1<<k) != 0 {
				es = append(es, p)
			}
		}
		if acyclic(n, es) {
			out = append(out, es)
		}
	}
	return out
}

func acyclic(n int, es [][2]int) bool {
	adj := make([][]int, n)
	for _, e := range es {
		adj[e[0]] = append(adj[e[0]], e[1])
	}
	state := make([]int, n)
	var visit func(int) bool
	visit = func(u int) bool {
		state[u] = 1
		for _, v := range adj[u] {
			if state[v] == 1 || (state[v] == 0 && !visit(v)) {
				return false
			}
		}
		state[u] = 2
		return true
	}
	for i := 0; i < n; i++ {
		if state[i] == 0 && !visit(i) {
			return false
		}
	}
	return true
}

func c08Configs(n int, opts []c08Opt, nIn int) []c08Cfg {
	var out []c08Cfg
	ds := dags(n)
	total := 1
	for i := 0; i < n; i++ {
		total *= len(opts) * nIn
	}
	for idx := 0; idx < total; idx++ {
		x := idx
		tasks := make([]c08Opt, n)
		in := make([]int, n)
		for i := 0; i < n; i++ {
			tasks[i] = opts[x%len(opts)]
			x /= len(opts)
			in[i] = x % nIn
			x /= nIn
		}
		e2live := false
		for i := range tasks {
			if in[i] == 2 && !tasks[i].Pruned {
				e2live = true
			}
		}
		for _, d := range ds {
			for ed := 0; ed < 3; ed++ {
				out = append(out, c08Cfg{Tasks: tasks, In: in, Deps: d, EpicDep: ed})
				if !e2live && ed != 0 {
					out = append(out, c08Cfg{Tasks: tasks, In: in, Deps: d, EpicDep: ed, E2Gone: true})
				}
			}
		}
	}
	return out
}

func (c c08Cfg) String() string {
	var sb strings.Builder
	for i, t := range c.Tasks {
		fmt.Fprintf(&sb, "T%d{%s", i, t.State)
		if t.Claim != "" {
			sb.WriteString("+claimed")
		}
		if t.Pruned {
			sb.WriteString(",pruned")
		}
		fmt.Fprintf(&sb, ",in=%s} ", []string{"root", "E1", "E2"}[c.In[i]])
	}
	fmt.Fprintf(&sb, "deps=%v epicdep=%s", c.Deps, []string{"none", "E1->E2", "E2->E1"}[c.EpicDep])
	if c.E2Gone {
		sb.WriteString(" E2=pruned")
	}
	if c.Variant != 0 {
		sb.WriteString(" history=" + []string{"plain", "reassigned", "link-unlink-noise", "reopened", "claim-churn", "creates-in-reverse-log-order", "legacy-epic-state-events", "created-unfiled-then-filed", "claim-merged-in-after-the-close"}[c.Variant])
	}
	return sb.String()
}

// build returns the synthesised store plus ids.
func (c c08Cfg) build() (core.Store, []string, [2]string) {
	e := [2]string{core.IDFor(1000), core.IDFor(1001)}
	items := []SynItem{{ID: e[0], Epic: true, Title: "E1"}, {ID: e[1], Epic: true, Title: "E2", Pruned: c.E2Gone}}
	ids := make([]string, len(c.Tasks))
	for i, t := range c.Tasks {
		ids[i] = core.IDFor(int64(2000 + i*7))
		in := ""
		if c.In[i] > 0 {
			in = e[c.In[i]-1]
		}
		it := SynItem{ID: ids[i], Title: fmt.Sprintf("T%d", i), In: in, State: t.State, Claim: t.Claim, Pruned: t.Pruned}
		switch c.Variant {
		case 1:
			from := ""
			if k := (c.In[i] + 1) % 3; k > 0 && !(k == 2 && c.E2Gone) {
				from = e[k-1]
			}
			it.CreatedIn = &from
		case 7: // created unfiled, filed under its epic afterwards
			if in != "" {
				from := ""
				it.CreatedIn = &from
			}
		case 3:
			it.Reopened = true
		case 4:
			it.Churned = true
		}
		items = append(items, it)
	}
	var edges []SynEdge
	for _, d := range c.Deps {
		edges = append(edges, SynEdge{ids[d[0]], ids[d[1]]})
	}
	switch c.EpicDep {
	case 1:
		edges = append(edges, SynEdge{e[0], e[1]})
	case 2:
		edges = append(edges, SynEdge{e[1], e[0]})
	}
	var noise []SynEdge
	if c.Variant == 2 { // every ordered pair of tasks that is not a final edge is linked and unlinked again
		for i := range ids {
			for j := range ids {
				has := false
				for _, d := range c.Deps {
					has = has || (d[0] == i && d[1] == j)
				}
				if i != j && !has {
					noise = append(noise, SynEdge{ids[i], ids[j]})
				}
			}
		}
		if c.EpicDep == 0 {
			noise = append(noise, SynEdge{e[0], e[1]})
		}
	}
	st := synStoreOpts(items, edges, noise, c.Variant == 5)
	if c.Variant == 6 {
		// a log written by an older ergo: epics still carried state and claim events (they are replayed and kept by
		// compact). E1 was "done", E2 "canceled" and claimed. None of that may matter to readiness or to prune.
		l := newSynLog()
		l.t = l.t.Add(24 * time.Hour)
		l.State(e[0], "done")
		if !c.E2Gone {
			l.Claim(e[1], "old-agent")
			l.State(e[1], "canceled")
		}
		st = st.WithLog(append(append([]byte{}, st.Log()...), l.Bytes()...))
	}
	if c.Variant == 8 {
		// two clones merged: in one the task was closed, in the other somebody claimed it; the claim lines ended up behind
		// the close. The task is done / canceled (and shows a claimant); what prune takes is decided by the state alone.
		l := newSynLog()
		l.t = l.t.Add(24 * time.Hour)
		for k, t := range c.Tasks {
			if c.live(k) && (t.State == "done" || t.State == "canceled") {
				l.Claim(ids[k], "late-agent")
			}
		}
		st = st.WithLog(append(append([]byte{}, st.Log()...), l.Bytes()...))
	}
	return st, ids, e
}

// ---- reference predicates: literal transcription of the property sentence ---------------------

func (c c08Cfg) live(i int) bool { return !c.Tasks[i].Pruned }

func (c c08Cfg) epicComplete(ep int) bool { // only done or canceled children
	for i, t := range c.Tasks {
		if c.live(i) && c.In[i] == ep && t.State != "done" && t.State != "canceled" {
			return false
		}
	}
	return true
}

func (c c08Cfg) ready(i int) bool {
	t := c.Tasks[i]
	if !c.live(i) || t.State != "todo" || t.Claim != "" {
		return false
	}
	for _, d := range c.Deps {
		if d[0] == i && c.live(d[1]) {
			s := c.Tasks[d[1]].State
			if s != "done" && s != "canceled" {
				return false
			}
		}
	}
	if c.In[i] == 1 && c.EpicDep == 1 && !c.E2Gone && !c.epicComplete(2) {
		return false
	}
	if c.In[i] == 2 && c.EpicDep == 2 && !c.epicComplete(1) {
		return false
	}
	return true
}

func (c c08Cfg) blocked(i int) bool {
	t := c.Tasks[i]
	if !c.live(i) {
		return false
	}
	return t.State == "blocked" || (t.State == "todo" && t.Claim == "" && !c.ready(i))
}

func runC08(env *core.Env) {
	var cfgs []c08Cfg
	cfgs = append(cfgs, c08Configs(1, c08Full, 3)...)
	cfgs = append(cfgs, c08Configs(2, c08Full, 3)...)
	if env.Thorough() {
		cfgs = append(cfgs, c08Configs(3, c08Full, 3)...)
	} else {
		cfgs = append(cfgs, c08Configs(3, c08Small, 2)...)
	}
	// history variants: same final graph reached through re-assignment, link/unlink, reopen, claim churn
	base := len(cfgs)
	for i := 0; i < base; i++ {
		if len(cfgs[i].Tasks) > 2 && !env.Thorough() {
			continue
		}
		for v := 1; v <= 7; v++ {
			c := cfgs[i]
			c.Variant = v
			cfgs = append(cfgs, c)
		}
	}
	env.Logf("%d configurations", len(cfgs))
	var evals, claims, nontrivial, busyClaims int64
	classes := newCounter()
	samples := &sampleSet{max: 8}
	conf := newConformer(len(cfgs)/250+1, 300)
	done := int64(0)
	env.Parallel(len(cfgs), func(w *core.Worker, i int) {
		if !env.TimeLeft() {
			return
		}
		c := cfgs[i]
		st, ids, ep := c.build()
		if err := st.Materialize(w.Proj); err != nil {
			env.HarnessError("materialize: %v", err)
		}
		obs := core.ObserveW(w, w.Proj)
		atomic.AddInt64(&evals, 1)
		atomic.AddInt64(&done, 1)
		fail := func(kind, detail string, steps []core.Req, as ...Assert) {
			report(env, "C08 kind="+kind, c.String()+": "+detail, mkTrace(st, c.String(), steps, as...))
		}
		if obs.Fail != "" {
			fail("store-unreadable", obs.Fail, nil, Assert{Kind: "read_fails", Step: 0})
			return
		}
		wantReady := map[string]bool{}
		nReady := 0
		for k := range c.Tasks {
			it, ok := obs.Item(ids[k])
			if !c.live(k) {
				if ok {
					fail("pruned-listed", "pruned task listed", nil, Assert{Kind: "obs_contains", Step: 0, Text: ids[k]})
				}
				continue
			}
			if !ok {
				fail("live-task-missing", fmt.Sprintf("T%d missing from list --all", k), nil, Assert{Kind: "obs_lacks", Step: 0, Text: ids[k]})
				continue
			}
			r, b := c.ready(k), c.blocked(k)
			if r {
				wantReady[ids[k]] = true
				nReady++
			}
			if it.Ready != r {
				fail(fmt.Sprintf("ready-flag want=%v got=%v state=%s claimed=%v", r, it.Ready, c.Tasks[k].State, c.Tasks[k].Claim != ""),
					fmt.Sprintf("T%d ready=%v, the manual's definition gives %v", k, it.Ready, r), nil,
					Assert{Kind: "obs_contains", Step: 0, Text: fmt.Sprintf("id=%s epic=%s state=%s by=%s title=\"T%d\" ready=%v", ids[k], it.EpicID, it.State, it.ClaimedBy, k, it.Ready)})
			}
			if it.Blocked != b {
				fail(fmt.Sprintf("blocked-flag want=%v got=%v state=%s claimed=%v", b, it.Blocked, c.Tasks[k].State, c.Tasks[k].Claim != ""),
					fmt.Sprintf("T%d blocked=%v, the manual's definition gives %v", k, it.Blocked, b), nil,
					Assert{Kind: "obs_contains", Step: 0, Text: fmt.Sprintf("title=\"T%d\" ready=%v blocked=%v", k, it.Ready, it.Blocked)})
			}
			classes.inc(fmt.Sprintf("%s claimed=%v ready=%v blocked=%v", c.Tasks[k].State, c.Tasks[k].Claim != "", r, b))
		}
		if nReady > 0 && nReady < len(c.Tasks) {
			atomic.AddInt64(&nontrivial, 1)
		}
		// list --ready (JSON and human) = exactly the ready tasks
		got := map[string]bool{}
		for _, it := range obs.Ready {
			got[it.ID] = true
		}
		if !sameSet(got, wantReady) {
			fail("list-ready-json", fmt.Sprintf("list --json --ready = %v want %v", keys(got), keys(wantReady)), []core.Req{core.R("", "--json", "list", "--ready")}, Assert{Kind: "exit_zero", Step: 1})
		}
		hres := w.Run(core.R(w.Proj, "list", "--ready").In(""))
		hgot := map[string]bool{}
		for _, r := range parseHumanList(string(hres.Out)) {
			if r.ID != ep[0] && r.ID != ep[1] {
				hgot[r.ID] = true
			}
		}
		if hres.Exit != 0 || !sameSet(hgot, wantReady) {
			fail("list-ready-human", fmt.Sprintf("human list --ready task rows = %v want %v", keys(hgot), keys(wantReady)), []core.Req{core.R("", "list", "--ready").In("")}, Assert{Kind: "exit_zero", Step: 1})
		}
		// the epic-scoped JSON view must report the same flags for its tasks as the unscoped one
		for sc := 0; sc < 2 && c.Variant == 0; sc++ { // (plain histories only: the view code does not depend on the history)
			if sc == 1 && c.E2Gone {
				continue
			}
			r := w.Run(core.R(w.Proj, "--json", "list", "--epic", ep[sc]))
			var items []core.Item
			if r.Exit != 0 || json.Unmarshal(r.Out, &items) != nil {
				continue
			}
			for _, it := range items {
				all, ok := obs.Item(it.ID)
				if ok && it.Kind == "task" && (it.Ready != all.Ready || it.Blocked != all.Blocked || it.State != all.State) {
					fail("epic-scoped-list-disagrees", fmt.Sprintf("`list --json --epic %s` says ready=%v blocked=%v for %s, `list --json --all` says ready=%v blocked=%v", []string{"E1", "E2"}[sc], it.Ready, it.Blocked, it.Title, all.Ready, all.Blocked),
						[]core.Req{core.R("", "--json", "list", "--epic", ep[sc])}, Assert{Kind: "exit_zero", Step: 1})
				}
			}
		}
		// claim: oldest ready, globally and per epic
		for scope := 0; scope <= 2; scope++ {
			if scope == 2 && c.E2Gone {
				continue
			}
			want := ""
			for k := range c.Tasks { // creation order = index order
				if c.ready(k) && (scope == 0 || c.In[k] == scope) {
					want = ids[k]
					break
				}
			}
			st.Materialize(w.Proj)
			args := []string{"--json", "claim", "--agent", "z"}
			if scope > 0 {
				args = append(args, "--epic", ep[scope-1])
			}
			req := core.R(w.Proj, args...)
			res := w.Run(req)
			atomic.AddInt64(&claims, 1)
			conf.offer(w.Proj, st, req, res)
			var rep struct {
				ID, Status string
			}
			json.Unmarshal(res.Out, &rep)
			scopeName := []string{"all", "E1", "E2"}[scope]
			switch {
			case res.Exit != 0:
				fail("claim-failed scope="+scopeName, res.String(), []core.Req{req}, Assert{Kind: "exit_nonzero", Step: 1})
			case want == "" && rep.Status != "no_ready":
				fail("claim-when-nothing-ready scope="+scopeName, "claim returned "+rep.ID+" although the ready set is empty", []core.Req{req}, Assert{Kind: "out_lacks", Step: 1, Text: "no_ready"})
			case want != "" && rep.Status == "no_ready":
				fail("no-ready-but-ready-set-nonempty scope="+scopeName, "claim says no_ready; ready = "+fmt.Sprint(keys(wantReady)), []core.Req{req}, Assert{Kind: "out_contains", Step: 1, Text: "no_ready"})
			case want != "" && rep.ID != want:
				fail("claim-not-oldest scope="+scopeName, fmt.Sprintf("claim returned %s, the oldest ready task is %s", rep.ID, want), []core.Req{req}, Assert{Kind: "out_lacks", Step: 1, Text: `"id":"` + want + `"`})
			}
		}
		// "nothing is ready" is an answer about the ready set, not about the claimer's luck: while another process holds
		// the store lock, claim must not say so when something is ready (one-task stores, plain history)
		if len(c.Tasks) == 1 && c.Variant == 0 && c.ready(0) {
			st.Materialize(w.Proj)
			fd, err := syscall.Open(filepath.Join(w.Proj, ".ergo", "lock"), syscall.O_RDONLY, 0)
			if err == nil && syscall.Flock(fd, syscall.LOCK_EX|syscall.LOCK_NB) == nil {
				req := core.R(w.Proj, "--json", "claim", "--agent", "z")
				res := w.Run(req)
				syscall.Flock(fd, syscall.LOCK_UN)
				atomic.AddInt64(&busyClaims, 1)
				var rep struct{ Status string }
				json.Unmarshal(res.Out, &rep)
				if res.Exit == 0 && rep.Status == "no_ready" {
					sig := "C08 kind=no-ready-answer-while-lock-busy"
					if !env.ViolationSeen(sig) {
						env.Violation(sig, c.String()+": with the store lock held by another process `ergo --json claim --agent z` exits 0 and says no_ready although T0 is ready: "+res.String(),
							Trace{Kind: "trace", Store: st, Note: "the harness holds an exclusive flock on .ergo/lock while the step runs", Steps: []core.Req{{Cwd: ".", Args: []string{"--json", "claim", "--agent", "z"}, RandBase: -1, HoldLock: true}},
								Shell: []string{"flock -x .ergo/lock sleep 5 & sleep 1; ergo --json claim --agent z"}, FailIf: []Assert{{Kind: "exit_zero", Step: 1}, {Kind: "out_contains", Step: 1, Text: "no_ready"}}})
					}
				}
			}
			if err == nil {
				syscall.Close(fd)
			}
		}
		if i%5000 == 0 {
			samples.add(map[string]interface{}{"config": c.String(), "ready": keys(wantReady)})
		}
	})
	orderCov := c08ClaimOrder(env)
	three := c08ThreeEpics(env, classes)
	// cross-validation of the synthesised logs: build a subset through the real CLI and compare flags
	xv := c08CrossValidate(env, cfgs)
	validated := conf.run(env)
	env.Finish("model_checking", map[string]interface{}{
		"states": evals, "transitions": claims + evals, "traces_validated_against_impl": validated,
		"samples": samples.list, "exhaustive": int(done) == len(cfgs), "configurations": len(cfgs), "configurations_checked": done,
		"claim_order_vs_id_order": orderCov,
		"claim_calls":             claims, "claims_under_held_lock": busyClaims, "configs_with_mixed_ready_sets": nontrivial, "distinct_flag_classes": classes.len(), "flag_classes": classes.snapshot(),
		"cli_built_cross_validated": xv, "three_epic_configurations": three, "unconfirmed_candidates": unconfirmed.Load(),
		"history_variants": "each <=2-task configuration (thorough: every configuration) also reached via re-assignment from another epic, link+unlink noise on every non-edge, done->todo reopen, claim/unclaim churn, create events in reverse log order",
		"bound":            "all stores with <=2 tasks (9 state/claim/pruned options x 3 memberships each, all acyclic dependency relations, 3 epic-dependency options, E2 optionally pruned) and 3 tasks (quick: 4 options x {root,E1}; thorough: 9 options x 3 memberships)",
	}, []string{
		"stores are synthesised event logs in ergo's own format (includes the crash-only todo+claimed state); a subset is rebuilt through the real CLI and must observe identically (cli_built_cross_validated)",
		"timestamps are distinct, so creation order is total",
	})
}

func sameSet(a, b map[string]bool) bool {
	if len(a) != len(b) {
		return false
	}
	for k := range a {
		if !b[k] {
			return false
		}
	}
	return true
}

func keys(m map[string]bool) []string {
	var out []string
	for k := range m {
		out = append(out, k)
	}
	sort.Strings(out)
	return out
}

// c08CrossValidate rebuilds CLI-constructible configurations with real commands and requires the same
// (title -> state, claimed, ready, blocked, epic title) table as the synthesised log gives.
func c08CrossValidate(env *core.Env, cfgs []c08Cfg) int {
	var pick []c08Cfg
	for i, c := range cfgs {
		if len(c.Tasks) > 2 || i%7 != 0 || c.Variant != 0 {
			continue
		}
		ok := !c.E2Gone
		for _, t := range c.Tasks {
			if t.State == "todo" && t.Claim != "" {
				ok = false
			}
			if t.Pruned {
				ok = false
			}
		}
		if ok {
			pick = append(pick, c)
		}
	}
	if len(pick) > 400 {
		pick = pick[:400]
	}
	table := func(o core.Obs) string {
		tm := o.TitleMap()
		var rows []string
		for _, it := range o.All {
			rows = append(rows, fmt.Sprintf("%s %s claimed=%v ready=%v blocked=%v in=%s", it.Title, it.State, it.ClaimedBy != "", it.Ready, it.Blocked, tm[it.EpicID]))
		}
		sort.Strings(rows)
		return strings.Join(rows, "\n")
	}
	var n int64
	env.Parallel(len(pick), func(w *core.Worker, i int) {
		c := pick[i]
		st, _, _ := c.build()
		st.Materialize(w.Proj)
		want := table(core.ObserveW(w, w.Proj))
		fx := NewFix(env, w)
		e := []string{fx.NewEpic("E1"), fx.NewEpic("E2")}
		ids := make([]string, len(c.Tasks))
		for k := range c.Tasks {
			f := map[string]interface{}{"title": fmt.Sprintf("T%d", k)}
			if c.In[k] > 0 {
				f["epic"] = e[c.In[k]-1]
			}
			ids[k] = fx.NewTask(f)
		}
		// ergo refuses edges that would close a waits-for cycle (also through epic-level dependencies): such
		// configurations exist only as hand-merged logs and cannot be rebuilt through the CLI
		refused := false
		link := func(a, b string) {
			if res := fx.Run(core.R("", "sequence", a, b)); res.Exit != 0 {
				if !strings.Contains(string(res.Err), "cycle") {
					env.HarnessError("fixture command failed: sequence %s %s: %s", a, b, res)
				}
				refused = true
			}
		}
		for _, d := range c.Deps {
			link(ids[d[1]], ids[d[0]])
		}
		switch c.EpicDep {
		case 1:
			link(e[1], e[0])
		case 2:
			link(e[0], e[1])
		}
		if refused {
			return
		}
		for k, t := range c.Tasks {
			switch t.State {
			case "todo":
			case "error":
				fx.Set(ids[k], map[string]interface{}{"state": "doing", "claim": t.Claim})
				fx.Set(ids[k], map[string]interface{}{"state": "error"})
			default:
				f := map[string]interface{}{"state": t.State}
				if t.Claim != "" {
					f["claim"] = t.Claim
				}
				fx.Set(ids[k], f)
			}
		}
		got := table(core.ObserveW(w, w.Proj))
		if got != want {
			env.HarnessError("synthesised log and CLI-built store disagree for %s:\n--- synthesised\n%s\n--- CLI\n%s", c, want, got)
		}
		atomic.AddInt64(&n, 1)
	})
	return int(n)
}

// c08ThreeEpics: three epics with every acyclic dependency relation among them, each epic holding no task or one
// task (todo / doing / done): the epic clause of readiness looks at the epics a task's epic DIRECTLY depends on.
func c08ThreeEpics(env *core.Env, classes *counter) int {
	type cfg struct {
		deps  [][2]int
		tasks [3]int // per epic: 0 none, 1 todo, 2 doing, 3 done
	}
	var cfgs []cfg
	for _, d := range dags(3) {
		for x := 0; x < 64; x++ {
			cfgs = append(cfgs, cfg{d, [3]int{x % 4, (x / 4) % 4, x / 16}})
		}
	}
	var n int64
	env.Parallel(len(cfgs), func(w *core.Worker, i int) {
		if !env.TimeLeft() {
			return
		}
		c := cfgs[i]
		ep := []string{core.IDFor(3100), core.IDFor(3101), core.IDFor(3102)}
		items := []SynItem{{ID: ep[0], Epic: true, Title: "A"}, {ID: ep[1], Epic: true, Title: "B"}, {ID: ep[2], Epic: true, Title: "C"}}
		tid := [3]string{}
		for k := 0; k < 3; k++ {
			if c.tasks[k] == 0 {
				continue
			}
			tid[k] = core.IDFor(int64(3200 + k))
			it := SynItem{ID: tid[k], Title: fmt.Sprintf("t%d", k), In: ep[k], State: []string{"", "todo", "doing", "done"}[c.tasks[k]]}
			if c.tasks[k] == 2 {
				it.Claim = "c"
			}
			items = append(items, it)
		}
		var edges []SynEdge
		for _, d := range c.deps {
			edges = append(edges, SynEdge{ep[d[0]], ep[d[1]]})
		}
		st := synStore(items, edges)
		st.Materialize(w.Proj)
		obs := core.ObserveW(w, w.Proj)
		atomic.AddInt64(&n, 1)
		desc := fmt.Sprintf("epics A,B,C tasks(0 none,1 todo,2 doing,3 done)=%v epic deps(from depends on to)=%v", c.tasks, c.deps)
		if obs.Fail != "" {
			report(env, "C08 kind=store-unreadable", desc+": "+obs.Fail, mkTrace(st, desc, nil, Assert{Kind: "read_fails", Step: 0}))
			return
		}
		complete := func(k int) bool { return c.tasks[k] == 0 || c.tasks[k] == 3 }
		for k := 0; k < 3; k++ {
			if c.tasks[k] == 0 {
				continue
			}
			ready := c.tasks[k] == 1
			for _, d := range c.deps {
				if d[0] == k && !complete(d[1]) {
					ready = false
				}
			}
			blocked := c.tasks[k] == 1 && !ready
			it, _ := obs.Item(tid[k])
			classes.inc(fmt.Sprintf("three-epics ready=%v blocked=%v", ready, blocked))
			if it.Ready != ready || it.Blocked != blocked {
				report(env, fmt.Sprintf("C08 kind=epic-chain-flags want-ready=%v got-ready=%v want-blocked=%v got-blocked=%v", ready, it.Ready, blocked, it.Blocked),
					fmt.Sprintf("%s: task in epic %d shows ready=%v blocked=%v; only the epics its epic directly depends on count", desc, k, it.Ready, it.Blocked),
					mkTrace(st, desc, nil, Assert{Kind: "obs_contains", Step: 0, Text: fmt.Sprintf("title=\"t%d\" ready=%v blocked=%v", k, it.Ready, it.Blocked)}))
			}
			// claim --epic hands out the task iff it is ready
			st.Materialize(w.Proj)
			res := w.Run(core.R(w.Proj, "--json", "claim", "--agent", "z", "--epic", ep[k]))
			got := strings.Contains(string(res.Out), tid[k])
			if res.Exit != 0 || got != ready {
				report(env, fmt.Sprintf("C08 kind=epic-chain-claim want=%v got=%v", ready, got), desc+": claim --epic -> "+res.String(),
					mkTrace(st, desc, []core.Req{core.R("", "--json", "claim", "--agent", "z", "--epic", ep[k])}, Assert{Kind: "exit_zero", Step: 1}))
			}
		}
	})
	return int(n)
}

// c08ClaimOrder: n ready tasks (n = 3, 4) whose ids are in every possible order relative to their creation order
// (ids are random in real use, so any arrangement occurs): repeated claim must hand them out oldest first; with equal
// creation times the documented tie-break (id) decides. Also per epic (claim --epic) with the tasks spread over two epics.
func c08ClaimOrder(env *core.Env) map[string]interface{} {
	type job struct {
		perm  []int
		equal bool          // all created at the same instant
		gap   time.Duration // distance between two creations when not equal (0 = the log's usual 1.5 s)
		whole bool          // the first creation falls exactly on a whole second (its RFC3339Nano text has no fraction)
		epics bool          // odd tasks in E1, even tasks in E2; claim --epic E1
	}
	var jobs []job
	for _, n := range []int{3, 4} {
		for _, p := range permutations(n) {
			for _, eq := range []bool{false, true} {
				jobs = append(jobs, job{perm: p, equal: eq})
			}
			// created within one millisecond / one microsecond of each other (what plan and merged logs produce)
			jobs = append(jobs, job{perm: p, gap: 7 * time.Microsecond}, job{perm: p, gap: time.Nanosecond})
			jobs = append(jobs, job{perm: p, epics: true}, job{perm: p, gap: 7 * time.Microsecond, epics: true})
			// the oldest stamped on a whole second, the others within that second (timestamps of different text length)
			jobs = append(jobs, job{perm: p, gap: 200 * time.Millisecond, whole: true}, job{perm: p, gap: 200 * time.Millisecond, whole: true, epics: true})
		}
	}
	var claims int64
	env.Parallel(len(jobs), func(w *core.Worker, i int) {
		j := jobs[i]
		n := len(j.perm)
		var sorted []string
		for k := 0; k < n; k++ {
			sorted = append(sorted, core.IDFor(int64(5000+k)))
		}
		sort.Strings(sorted)
		l := newSynLog()
		e1, e2 := core.IDFor(5100), core.IDFor(5101)
		l.Create(SynItem{ID: e1, Epic: true, Title: "E1"})
		l.Create(SynItem{ID: e2, Epic: true, Title: "E2"})
		ts := l.tick()
		var want []string // expected hand-out order
		ids := make([]string, n)
		for k := 0; k < n; k++ { // k = creation order; the k-th created task gets the perm[k]-th smallest id
			ids[k] = sorted[j.perm[k]]
			in := ""
			if j.epics {
				in = e2
				if k%2 == 1 {
					in = e1
				}
			}
			if !j.equal {
				if j.gap > 0 {
					if k == 0 && j.whole {
						l.t = l.t.Truncate(time.Second).Add(time.Second - j.gap)
					}
					l.t = l.t.Add(j.gap)
					ts = l.t.Format(time.RFC3339Nano)
				} else {
					ts = l.tick()
				}
			}
			l.ev("new_task", ts, map[string]interface{}{"id": ids[k], "uuid": "u-" + ids[k], "epic_id": in, "state": "todo", "title": fmt.Sprintf("created #%d", k), "body": "", "created_at": ts})
			if !j.epics || k%2 == 1 {
				want = append(want, ids[k])
			}
		}
		if j.equal {
			sort.Strings(want) // same instant: by id
		}
		st := core.Store{".ergo/plans.jsonl": l.Bytes(), ".ergo/lock": nil}
		st.Materialize(w.Proj)
		args := []string{"--json", "claim", "--agent", "z"}
		if j.epics {
			args = append(args, "--epic", e1)
		}
		var got []string
		var steps []core.Req
		for k := 0; k <= len(want); k++ {
			res := w.Run(core.R(w.Proj, args...))
			steps = append(steps, core.R("", args...))
			atomic.AddInt64(&claims, 1)
			var rep struct{ ID, Status string }
			json.Unmarshal(res.Out, &rep)
			if res.Exit != 0 || rep.Status == "no_ready" {
				break
			}
			got = append(got, rep.ID)
		}
		if strings.Join(got, ",") != strings.Join(want, ",") {
			desc := fmt.Sprintf("%d ready tasks, id rank by creation order %v, equal creation times=%v, gap=%v, per-epic=%v", n, j.perm, j.equal, j.gap, j.epics)
			first := 0
			for first < len(got) && first < len(want) && got[first] == want[first] {
				first++
			}
			wantID := "no_ready"
			if first < len(want) {
				wantID = `"id":"` + want[first] + `"`
			}
			report(env, fmt.Sprintf("C08 kind=claim-order-depends-on-id-order equal-times=%v gap=%v whole-second-first=%v per-epic=%v", j.equal, j.gap, j.whole, j.epics), fmt.Sprintf("%s: repeated claim hands out %v, oldest-first is %v", desc, got, want),
				mkTrace(st, desc, steps[:first+1], Assert{Kind: "out_lacks", Step: first + 1, Text: wantID}))
		}
	})
	return map[string]interface{}{"stores": len(jobs), "claims": claims,
		"rule": "3 and 4 ready tasks x every permutation of id rank vs creation order x {creation times 1.5 s apart, 7 us apart, 1 ns apart, 200 ms apart starting on a whole second, one instant (tie-break by id), spread over two epics with claim --epic (1.5 s and 7 us apart)}; repeated claim until no_ready must hand out exactly the expected sequence"}
}
