package checks

import (
	"encoding/json"
	"fmt"
	"os"
	"path/filepath"
	"sort"
	"strings"
	"sync/atomic"
	"time"

	"verif/internal/core"
)

func init() { Registry["C05"] = runC05 }

// c05Ops: the alphabet relative to the items of a state (first two tasks / epics in creation order).
func c05Ops(obs core.Obs, full bool, maxTasks, maxEpics int) []core.Req {
	type it struct{ id, created string }
	var tasks, epics []it
	for _, t := range obs.All {
		tasks = append(tasks, it{t.ID, obs.Shows[t.ID].CreatedAt})
	}
	for _, e := range obs.Epics {
		epics = append(epics, it{e.ID, obs.Shows[e.ID].CreatedAt})
	}
	by := func(xs []it) {
		sort.Slice(xs, func(i, j int) bool {
			if xs[i].created != xs[j].created {
				return core.TSLess(xs[i].created, xs[j].created)
			}
			return xs[i].id < xs[j].id
		})
	}
	by(tasks)
	by(epics)
	var out []core.Req
	j := func(id string, m map[string]interface{}) core.Req {
		return core.R("", "--json", "set", id).In(jsonStr(m))
	}
	if len(epics) < maxEpics {
		out = append(out, core.R("", "--json", "new", "epic").In(`{"title":"epic","body":"eb"}`))
	}
	if len(tasks) < maxTasks {
		out = append(out, core.R("", "--json", "new", "task").In(`{"title":"task","body":"tb"}`))
		if len(epics) > 0 {
			out = append(out, core.R("", "--json", "new", "task").In(jsonStr(map[string]string{"title": "child", "epic": epics[0].id})))
		}
		if full {
			out = append(out, core.R("", "--json", "new", "task", "--title", "flagged", "--body", "fb"))
			out = append(out, core.R("", "--json", "new", "task", "--title", "piped", "--body-stdin").In("piped body\n"))
			out = append(out, core.R("", "--json", "new", "task").In(`{"title":"claimed at birth","claim":"a"}`))
		}
		if len(tasks)+2 <= maxTasks && len(epics) < maxEpics {
			out = append(out, core.R("", "--json", "plan").In(`{"title":"P","tasks":[{"title":"pa"},{"title":"pb","after":["pa"]}]}`))
		}
	}
	n := len(tasks)
	if n > 2 {
		n = 2
	}
	for k := 0; k < n; k++ {
		t := tasks[k].id
		out = append(out, j(t, map[string]interface{}{"title": "retitled"}), j(t, map[string]interface{}{"body": "rebodied\nline2"}))
		out = append(out, j(t, map[string]interface{}{"claim": "a"}), j(t, map[string]interface{}{"claim": ""}))
		for _, s := range []string{"todo", "doing", "done", "blocked", "canceled", "error"} {
			if full || s == "todo" || s == "done" || s == "blocked" {
				out = append(out, core.R("", "--json", "--agent", "b", "set", t).In(jsonStr(map[string]string{"state": s})))
			}
		}
		out = append(out, core.R("", "--json", "claim", t, "--agent", "c"))
		out = append(out, j(t, map[string]interface{}{"result_path": "out.txt", "result_summary": "first"}))
		if full {
			out = append(out, j(t, map[string]interface{}{"result_path": "docs/r.md", "result_summary": "second"}))
		}
		for e := 0; e < len(epics) && e < 2; e++ {
			out = append(out, j(t, map[string]interface{}{"epic": epics[e].id}))
		}
		out = append(out, j(t, map[string]interface{}{"epic": ""}))
	}
	out = append(out, core.R("", "--json", "claim", "--agent", "d"))
	if len(tasks) >= 2 {
		a, b := tasks[0].id, tasks[1].id
		out = append(out, core.R("", "--json", "sequence", a, b), core.R("", "--json", "sequence", b, a), core.R("", "--json", "sequence", "rm", a, b))
	}
	if len(epics) >= 2 {
		a, b := epics[0].id, epics[1].id
		out = append(out, core.R("", "--json", "sequence", a, b), core.R("", "--json", "sequence", "rm", a, b))
	}
	out = append(out, core.R("", "--json", "prune", "--yes"), core.R("", "--json", "compact"))
	return out
}

// claimOrder returns the ids handed out by repeated claim on a copy.
func claimOrder(w *core.Worker, st core.Store) []string {
	st.Materialize(w.Proj)
	var ids []string
	for i := 0; i < 12; i++ {
		res := w.Run(core.R(w.Proj, "--json", "claim", "--agent", "order"))
		var m map[string]interface{}
		if res.Exit != 0 || json.Unmarshal(res.Out, &m) != nil {
			ids = append(ids, fmt.Sprintf("exit=%d", res.Exit))
			break
		}
		if m["status"] == "no_ready" {
			break
		}
		id, _ := m["id"].(string)
		ids = append(ids, id)
	}
	return ids
}

var linkTS = strings.NewReplacer()

// logModuloLinkTS compares compacted logs ignoring the (fresh) timestamps of re-emitted link events.
func logModuloLinkTS(b []byte) string {
	evs, _ := core.ParseLog(b)
	var sb strings.Builder
	for _, e := range evs {
		if e.Type == "link" {
			d, _ := json.Marshal(e.Data)
			sb.WriteString("link " + string(d) + "\n")
		} else {
			sb.WriteString(e.Raw + "\n")
		}
	}
	return sb.String()
}

func runC05(env *core.Env) {
	w0 := env.W0()
	rich := buildRich(env, w0)
	// roots: fresh store, the rich store, the repository's legacy sample project, synthetic legacy untitled items
	var roots []core.Store
	{
		fx := NewFix(env, w0)
		st := fx.Store()
		st["out.txt"] = []byte("r1\n")
		st["docs/r.md"] = []byte("r2\n")
		roots = append(roots, st)
	}
	roots = append(roots, rich.Store)
	if sample, err := core.Snapshot(filepath.Join(env.Repo, "testdata/sample-project")); err == nil && len(sample.Log()) > 0 {
		sample["out.txt"] = []byte("r1\n")
		roots = append(roots, sample)
	}
	{
		l := newSynLog()
		mk := func(id, body string, epic bool) {
			ts := l.tick()
			typ := "new_task"
			if epic {
				typ = "new_epic"
			}
			l.ev(typ, ts, map[string]interface{}{"id": id, "uuid": "u-" + id, "epic_id": "", "state": "todo", "title": "", "body": body, "created_at": ts})
		}
		mk(core.IDFor(9001), "Only title line\nrest of body", false)
		mk(core.IDFor(9002), "# Heading\n\nFirst real line\nmore", false)
		mk(core.IDFor(9003), "", false)
		mk(core.IDFor(9004), "   \n\n", true)
		st := core.Store{".ergo/events.jsonl": l.Bytes(), ".ergo/lock": {}, "out.txt": []byte("r1\n")}
		roots = append(roots, st)
	}
	nRoots := len(roots)
	for _, r := range roots[:nRoots] {
		for _, t := range tornVariants(r) {
			roots = append(roots, t)
		}
		// what a compact/plan that died between writing its temp file and the rename leaves behind
		stale := r.Clone()
		stale[r.LogName()+".tmp"] = append([]byte{}, r.Log()...)
		roots = append(roots, stale)
	}
	// legacy-style logs and logs with equal timestamps: compact must not change what they show either. Checked at the root only (observations, claim
	// order, idempotence, every op of the alphabet with and without a preceding compact); not expanded.
	noExpand := map[string]bool{}
	for _, st := range c05MergedRoots() {
		st["out.txt"] = []byte("r1\n")
		st["docs/r.md"] = []byte("r2\n")
		roots = append(roots, st)
		noExpand[core.CanonLog(st.Log())] = true
	}
	maxDepth := 4
	maxTasks, maxEpics := 2, 2
	if env.Thorough() {
		maxDepth = 5
	}
	fresh := roots[0]
	freshKey := core.CanonLog(fresh.Log())
	full := env.Thorough()
	var statesChecked, commuteChecks int64
	samples := &sampleSet{max: 6}
	classes := newCounter()

	checkState := func(w *core.Worker, n *Node) {
		atomic.AddInt64(&statesChecked, 1)
		s := n.Store
		s.Materialize(w.Proj)
		before := core.ObserveW(w, w.Proj)
		fail := func(kind, detail string, steps []core.Req, as ...Assert) {
			all := append(append([]core.Req{}, n.Path...), steps...)
			// assertions are relative to the end of the path
			for i := range as {
				as[i].Step += len(n.Path)
				if as[i].Other > 0 || as[i].Kind == "obs_differs" || as[i].Kind == "raw_obs_differs" || as[i].Kind == "show_differs" {
					as[i].Other += len(n.Path)
				}
			}
			report(env, "C05 kind="+kind, fmt.Sprintf("history %v: %s", n.Shell(), detail), mkTrace(rootOfNode(n), kind, all, as...))
		}
		if before.Fail != "" {
			classes.inc("unreadable-history")
			return // not a log ergo produced in a readable way (C12's business)
		}
		creq := core.R(w.Proj, "--json", "compact")
		cres := w.Run(creq)
		if cres.Exit != 0 {
			fail("compact-fails", cres.String(), []core.Req{core.R("", "--json", "compact")}, Assert{Kind: "exit_nonzero", Step: 1})
			return
		}
		c, _ := core.Snapshot(w.Proj)
		after := core.ObserveW(w, w.Proj)
		if after.Raw() != before.Raw() {
			fail("observable-change "+firstDiffField(before, after), "compact changed what a reader sees: "+firstDiff(before.Raw(), after.Raw()), []core.Req{core.R("", "--json", "compact")}, Assert{Kind: "raw_obs_differs", Step: 1, Other: 0})
			return
		}
		for _, id := range prunedIDs(s.Log()) {
			// absent for every reader (the raw compacted log may still carry the id as the creation-time epic of a live task)
			_, listed := after.Item(id)
			sh := w.Run(core.R(w.Proj, "--json", "show", id))
			if listed || sh.Exit == 0 {
				fail("pruned-id-back-after-compact", id+" is visible again after compact", []core.Req{core.R("", "--json", "compact"), core.R("", "--json", "show", id)}, Assert{Kind: "exit_zero", Step: 2})
			}
		}
		// idempotence
		w.Run(creq)
		c2, _ := core.Snapshot(w.Proj)
		after2 := core.ObserveW(w, w.Proj)
		if after2.Raw() != after.Raw() || logModuloLinkTS(c2.Log()) != logModuloLinkTS(c.Log()) {
			fail("compact-not-idempotent", "compacting a compacted log changed it: "+firstDiff(logModuloLinkTS(c.Log()), logModuloLinkTS(c2.Log())), []core.Req{core.R("", "--json", "compact"), core.R("", "--json", "compact")}, Assert{Kind: "exit_zero", Step: 2})
		}
		// claim order
		o1, o2 := claimOrder(w, s), claimOrder(w, c)
		if strings.Join(o1, ",") != strings.Join(o2, ",") {
			fail("claim-order-changes", fmt.Sprintf("claim hands out %v without compact, %v after compact", o1, o2), []core.Req{core.R("", "--json", "compact")}, Assert{Kind: "exit_zero", Step: 1})
		}
		// commuting diagram: every op of the alphabet behaves the same on s and on compact(s)
		// (on the large roots only at the root itself; on histories from the fresh store up to depth maxDepth-1)
		fromFresh := core.CanonLog(rootOfNode(n).Log()) == freshKey
		if (fromFresh && n.Depth >= maxDepth) || (!fromFresh && n.Depth > 0) {
			classes.inc(fmt.Sprintf("depth=%d (no commuting diagram)", n.Depth))
			return
		}
		ops := c05Ops(before, full, maxTasks, maxEpics)
		for _, op := range ops {
			if opClass(op) == "compact" {
				continue
			}
			run := func(st core.Store) (core.Res, core.Obs) {
				st.Materialize(w.Proj)
				q := op
				q.Cwd = w.Proj
				q.RandBase = n.N + 1000
				res := w.Run(q)
				return res, core.ObserveW(w, w.Proj)
			}
			r1, ob1 := run(s)
			r2, ob2 := run(c)
			atomic.AddInt64(&commuteChecks, 1)
			n1, n2 := ob1.Norm(nil), ob2.Norm(nil)
			if r1.Exit != r2.Exit || n1 != n2 {
				cls := opClass(op)
				legacy := "no"
				for _, e := range eventsOf(s.Log()) {
					if (e.Type == "new_task" || e.Type == "new_epic") && strings.TrimSpace(fmt.Sprint(e.Data["title"])) == "" {
						legacy = "yes"
					}
				}
				q := op
				q.RandBase = n.N + 1000
				tr := mkTrace(rootOfNode(n), "same command with and without a preceding compact", append(append([]core.Req{}, n.Path...), q), Assert{Kind: "alt_differs"})
				for _, a := range append(append([]core.Req{}, n.Path...), core.R("", "--json", "compact"), q) {
					a.Cwd = "."
					tr.Alt = append(tr.Alt, a)
				}
				report(env, fmt.Sprintf("C05 kind=command-behaves-differently-after-compact op=%s legacy-untitled-item=%s", cls, legacy),
					fmt.Sprintf("history %v: `%s`: exit %d vs %d after compact; %s", n.Shell(), op.Shell(), r1.Exit, r2.Exit, firstDiff(n1, n2)), tr)
			}
		}
		classes.inc(fmt.Sprintf("depth=%d", n.Depth))
		if n.Depth == maxDepth {
			samples.add(map[string]interface{}{"history": n.Shell()})
		}
	}
	b := &BFS{Env: env, Roots: roots, KeyFn: func(w *core.Worker, st core.Store) (string, interface{}) {
		k, _ := canonLogKey(w, st)
		return k, core.ObserveW(w, w.Proj)
	}, MaxDepth: maxDepth, MaxStates: 400000}
	b.Ops = func(n *Node) []core.Req {
		obs := n.Aux.(core.Obs)
		if obs.Fail != "" {
			return nil
		}
		if noExpand[core.CanonLog(rootOfNode(n).Log())] {
			return nil
		}
		if n.Depth >= 1 && core.CanonLog(rootOfNode(n).Log()) != freshKey {
			return nil // large / legacy / torn roots: every op once (depth 1)
		}
		return c05Ops(obs, full, maxTasks, maxEpics)
	}
	b.Conf = newConformer(40, 300)
	b.OnState = checkState
	// the two cheap phases run before the search, so that a slow machine cannot push them past the deadline
	// a log that takes several read(2) calls (two 150 KB bodies), so that a read can fail after earlier ones succeeded
	bigLog := newSynLog()
	bigLog.t = bigLog.t.Add(48 * time.Hour)
	bigLog.Create(SynItem{ID: core.IDFor(9701), Title: "big one", Body: strings.Repeat("one hundred and fifty kilobytes ", 4800)})
	bigLog.Create(SynItem{ID: core.IDFor(9702), Title: "big two", Body: strings.Repeat("of body text in a single event. ", 4800)})
	bigLog.Create(SynItem{ID: core.IDFor(9703), Title: "small tail"})
	big := rich.Store.WithLog(append(append([]byte{}, rich.Store.Log()...), bigLog.Bytes()...))
	faultCov := unchangedWhateverPhase(env, "C05", []core.Store{rich.Store, tornVariants(rich.Store)[0], roots[nRoots-1], big, tornVariants(big)[0]}, crashCmd{"compact", core.R("", "--json", "compact")})
	limitCov := c05NearLineLimit(env)
	b.Run()
	validated := b.Conf.run(env)
	_ = os.Stderr
	if len(samples.list) == 0 {
		samples.add("(no state at the depth bound)")
	}
	env.Finish("model_checking", map[string]interface{}{
		"io_error_phase": faultCov, "near_line_limit": limitCov,
		"states": b.States, "transitions": b.Transitions, "traces_validated_against_impl": validated, "samples": samples.list,
		"exhaustive": b.CapHit == "" || b.CapHit == "max_depth", "cap_hit": b.CapHit, "history_depth_completed": b.DepthDone, "roots": len(roots),
		"states_checked": statesChecked, "commuting_diagram_checks": commuteChecks, "states_by_depth": classes.snapshot(),
		"unconfirmed_candidates": unconfirmed.Load(),
		"bound":                  fmt.Sprintf("every history of depth <= %d over the alphabet (new epic/task in 2-6 forms, plan, set title/body/claim/unclaim/state x3-6/epic x3/result x1-2, claim, claim <id>, sequence/rm on task and epic pairs, prune, compact; <=%d tasks, <=%d epics beyond the root's) from the fresh store, and every single op (depth 1) from %d further roots (rich, the repository's legacy sample project, synthetic legacy untitled items, each also with 3 torn tails and with a stale temp file of a crashed rewrite; plus 2 synthesised logs (equal timestamps; epics with legacy state/claim events) checked at the root only); state key = the whole normalised history (no abstraction)", maxDepth, maxTasks, maxEpics, len(roots)-1),
	}, []string{"ids are scripted (deterministic per path), timestamps are real; same-log comparisons are byte-exact, cross-run comparisons drop timestamps"})
}

func rootOfNode(n *Node) core.Store {
	for n.Parent != nil {
		n = n.Parent
	}
	return n.Store
}

func eventsOf(log []byte) []core.Event {
	evs, _ := core.ParseLog(log)
	return evs
}

func firstDiff(a, b string) string {
	la, lb := strings.Split(a, "\n"), strings.Split(b, "\n")
	for i := 0; i < len(la) || i < len(lb); i++ {
		var x, y string
		if i < len(la) {
			x = la[i]
		}
		if i < len(lb) {
			y = lb[i]
		}
		if x != y {
			return fmt.Sprintf("first difference: %q vs %q", clipS(x, 300), clipS(y, 300))
		}
	}
	return "no difference"
}

// firstDiffField names the first show field that differs between two observations of the same items.
func firstDiffField(a, b core.Obs) string {
	for id, sa := range a.Shows {
		sb := b.Shows[id]
		switch {
		case sa.State != sb.State:
			return "field=state"
		case sa.ClaimedBy != sb.ClaimedBy:
			return "field=claimed_by"
		case sa.ClaimedAt != sb.ClaimedAt:
			return "field=claimed_at"
		case sa.Title != sb.Title:
			return "field=title"
		case sa.Body != sb.Body:
			return "field=body"
		case sa.EpicID != sb.EpicID:
			return "field=epic_id"
		case sa.CreatedAt != sb.CreatedAt:
			return "field=created_at"
		case sa.UpdatedAt != sb.UpdatedAt:
			return "field=updated_at"
		case fmt.Sprint(sa.Deps) != fmt.Sprint(sb.Deps) || fmt.Sprint(sa.RDeps) != fmt.Sprint(sb.RDeps):
			return "field=deps"
		case fmt.Sprint(sa.Results) != fmt.Sprint(sb.Results):
			return "field=results"
		}
	}
	if len(a.Shows) != len(b.Shows) {
		return "field=item-set"
	}
	return "field=list-flags"
}

// c05MergedRoots: synthesised logs inside C05's quantifier that the CLI of this version does not write by itself: several
// commands within one clock reading, and a log written by an older version (epics with state and claim events).
// (Logs merged from two clones - timestamps running against the log order, links after tombstones, CRLF - were tried
// here and taken out again: C05 quantifies over histories ergo produces, legacy logs and torn tails; see Appendix B.)
func c05MergedRoots() []core.Store {
	var out []core.Store
	base := func() (*SynLog, string, string, string, string) {
		l := newSynLog()
		e, a, b, c := core.IDFor(9500), core.IDFor(9501), core.IDFor(9502), core.IDFor(9503)
		l.Create(SynItem{ID: e, Epic: true, Title: "E"})
		l.Create(SynItem{ID: a, Title: "A", In: e})
		l.Create(SynItem{ID: b, Title: "B"})
		l.Create(SynItem{ID: c, Title: "C"})
		l.Link(b, a)
		return l, e, a, b, c
	}
	at := func(l *SynLog, h int) string { return l.t.Add(time.Duration(h) * time.Hour).Format(time.RFC3339Nano) }
	mk := func(l *SynLog) core.Store { return core.Store{".ergo/plans.jsonl": l.Bytes(), ".ergo/lock": {}} }
	{ // equal timestamps everywhere (two clones writing in the same second)
		l, _, a, b, c := base()
		ts := at(l, 1)
		l.ev("claim", ts, map[string]interface{}{"id": a, "agent_id": "x", "ts": ts})
		l.ev("state", ts, map[string]interface{}{"id": a, "state": "doing", "ts": ts})
		l.ev("claim", ts, map[string]interface{}{"id": b, "agent_id": "y", "ts": ts})
		l.ev("state", ts, map[string]interface{}{"id": b, "state": "blocked", "ts": ts})
		l.ev("state", ts, map[string]interface{}{"id": c, "state": "done", "ts": ts})
		l.ev("state", ts, map[string]interface{}{"id": c, "state": "todo", "ts": ts})
		// an item created and updated within one clock reading: every update carries the creation's own timestamp
		d := core.IDFor(9505)
		l.ev("new_task", ts, map[string]interface{}{"id": d, "uuid": "u-" + d, "epic_id": "", "state": "todo", "title": "D as created", "body": "body as created", "created_at": ts})
		l.ev("title", ts, map[string]interface{}{"id": d, "title": "D retitled in the same instant", "ts": ts})
		l.ev("body", ts, map[string]interface{}{"id": d, "body": "body rewritten in the same instant", "ts": ts})
		l.ev("epic", ts, map[string]interface{}{"id": d, "epic_id": core.IDFor(9500), "ts": ts})
		l.ev("claim", ts, map[string]interface{}{"id": d, "agent_id": "same-instant", "ts": ts})
		l.ev("state", ts, map[string]interface{}{"id": d, "state": "blocked", "ts": ts})
		out = append(out, mk(l))
	}
	{ // an older writer: epics with state and claim events
		l, e, a, _, _ := base()
		l.Claim(e, "old-agent")
		l.State(e, "done")
		l.State(a, "done")
		out = append(out, mk(l))
	}
	return out
}

// c05NearLineLimit: compact re-emits an item's current body inside its creation event, whose envelope is longer than
// that of the body event the text arrived in. Bodies within a few hundred bytes of the 10 MiB line limit: either compact
// succeeds and everything reads exactly as before, or it refuses and the store is untouched - never a store that
// can no longer be read.
func c05NearLineLimit(env *core.Env) map[string]interface{} {
	slack := []int{40, 90, 130, 150, 170, 200, 250, 300, 400, 600}
	var readable, compacted, refused int64
	env.Parallel(len(slack), func(w *core.Worker, i int) {
		kind, detail := c05NearLimitCase(w.Run, func() core.Obs { return core.ObserveW(w, w.Proj) }, w.Proj, slack[i])
		switch kind {
		case "not-readable-before":
		case "compacted":
			atomic.AddInt64(&readable, 1)
			atomic.AddInt64(&compacted, 1)
		case "refused":
			atomic.AddInt64(&readable, 1)
			atomic.AddInt64(&refused, 1)
		default:
			atomic.AddInt64(&readable, 1)
			sig := "C05 kind=" + kind
			if env.ViolationSeen(sig) {
				return
			}
			spawn := core.Spawn{Bin: env.Prod}.Run
			for k := 0; k < 3; k++ { // confirm with spawned production binaries
				if k2, _ := c05NearLimitCase(spawn, func() core.Obs { return core.Observe(spawn, w.Proj) }, w.Proj, slack[i]); k2 != kind {
					unconfirmed.Add(1)
					return
				}
			}
			env.Violation(sig, detail, map[string]interface{}{"kind": "near-line-limit", "slack": slack[i]})
		}
	})
	return map[string]interface{}{"bodies": len(slack), "readable_before": readable, "compacted": compacted, "refused_unchanged": refused,
		"rule": "a task created without body + one body event of 10 MiB - {40..600} bytes; compact either succeeds with byte-identical observations or refuses leaving the log untouched; the store stays readable"}
}

// c05NearLimitCase builds the store for one slack value in proj, runs compact and classifies the outcome.
func c05NearLimitCase(run func(core.Req) core.Res, observe func() core.Obs, proj string, slack int) (string, string) {
	const limit = 10 * 1024 * 1024
	l := newSynLog()
	id := core.IDFor(9900)
	l.Create(SynItem{ID: id, Title: "created without a body"})
	ts := l.tick()
	l.ev("body", ts, map[string]interface{}{"id": id, "body": strings.Repeat("b", limit-slack), "ts": ts})
	st := core.Store{".ergo/plans.jsonl": l.Bytes(), ".ergo/lock": nil}
	st.Materialize(proj)
	before := observe()
	if before.Fail != "" {
		return "not-readable-before", "" // the body event itself does not fit a line: not a log ergo writes
	}
	res := run(core.R(proj, "--json", "compact"))
	after := observe()
	post, _ := core.Snapshot(proj)
	desc := fmt.Sprintf("task created without body, then a body of 10 MiB - %d bytes", slack)
	switch {
	case after.Fail != "":
		return "store-unreadable-after-compact-near-the-line-limit", fmt.Sprintf("%s: compact exits %d; afterwards reads fail: %s", desc, res.Exit, after.Fail)
	case res.Exit == 0 && after.Raw() != before.Raw():
		return "observable-change-near-the-line-limit", desc + ": compact changed what a reader sees: " + clipS(firstDiff(before.Raw(), after.Raw()), 300)
	case res.Exit != 0 && string(post.Log()) != string(st.Log()):
		return "refused-compact-changed-the-log", desc + ": compact exits non-zero but the log changed"
	case res.Exit == 0:
		return "compacted", ""
	}
	return "refused", ""
}

func init() {
	replayers["near-line-limit"] = func(env *core.Env, raw json.RawMessage) bool {
		var a struct {
			Slack int `json:"slack"`
		}
		json.Unmarshal(raw, &a)
		proj := filepath.Join(env.Scratch, "replay", "proj")
		os.MkdirAll(proj, 0o755)
		spawn := core.Spawn{Bin: env.Prod}.Run
		kind, detail := c05NearLimitCase(spawn, func() core.Obs { return core.Observe(spawn, proj) }, proj, a.Slack)
		fmt.Printf("  body of 10 MiB - %d bytes, then `ergo --json compact`: %s %s\n", a.Slack, kind, detail)
		return kind != "compacted" && kind != "refused" && kind != "not-readable-before"
	}
}
