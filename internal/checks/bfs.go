package checks

import (
	"sort"
	"sync"
	"sync/atomic"

	"verif/internal/core"
)

// Node is one explored store (a canonical-log or canonical-graph class; see KeyFn of each check).
type Node struct {
	Store  core.Store
	Key    string
	Path   []core.Req // real commands that led here from the root store
	Depth  int
	Aux    interface{} // whatever KeyFn computed along with the key (e.g. the observation)
	Parent *Node
	N      int64 // scripted-rand counter: reads consumed along Path; ids are never re-issued along a path
}

func (n *Node) Shell() []string {
	var out []string
	for _, r := range n.Path {
		out = append(out, r.Shell())
	}
	return out
}

// BFS is a breadth-first explicit-state search whose transition function is a real ergo command.
type BFS struct {
	Env       *core.Env
	Roots     []core.Store
	KeyFn     func(w *core.Worker, st core.Store) (string, interface{}) // st is materialised in w.Proj
	Ops       func(n *Node) []core.Req                                  // Cwd relative to the project root ("" = root)
	MaxDepth  int
	MaxStates int
	// OnTransition is called (concurrently) for every executed transition. pre is materialised before,
	// after is the snapshot after. It may run further commands on w (the project dir holds `after`).
	OnTransition func(w *core.Worker, n *Node, req core.Req, res core.Res, after core.Store)
	// OnState is called once per new state, with the store materialised in w.Proj.
	OnState func(w *core.Worker, n *Node)
	// Expand decides whether a successor is kept for expansion (nil = always).
	Expand func(n *Node, req core.Req, res core.Res, after core.Store) bool
	Conf   *conformer

	States      int
	Transitions int64
	DepthDone   int
	Exhaustive  bool // false when a cap or the deadline cut the search
	CapHit      string
	Nodes       []*Node
}

func (b *BFS) Run() {
	env := b.Env
	seen := map[string]*Node{}
	var mu sync.Mutex
	var frontier []*Node
	w0 := env.W0()
	for _, st := range b.Roots {
		st.Materialize(w0.Proj)
		k, aux := b.KeyFn(w0, st)
		if _, ok := seen[k]; ok {
			continue
		}
		n := &Node{Store: st, Key: k, Aux: aux, N: 2*countCreates(st.Log()) + 2}
		seen[k] = n
		frontier = append(frontier, n)
		b.Nodes = append(b.Nodes, n)
	}
	b.Exhaustive = true
	if b.OnState != nil {
		roots := frontier
		env.Parallel(len(roots), func(w *core.Worker, i int) {
			roots[i].Store.Materialize(w.Proj)
			b.OnState(w, roots[i])
		})
	}
	for depth := 0; len(frontier) > 0; depth++ {
		if b.MaxDepth > 0 && depth >= b.MaxDepth {
			b.Exhaustive = false
			b.CapHit = "max_depth"
			break
		}
		type job struct {
			n   *Node
			req core.Req
		}
		var jobs []job
		for _, n := range frontier {
			for _, r := range b.Ops(n) {
				jobs = append(jobs, job{n, r})
			}
		}
		var next []*Node
		var stop atomic.Bool
		env.Parallel(len(jobs), func(w *core.Worker, i int) {
			if stop.Load() {
				return
			}
			if !env.TimeLeft() {
				stop.Store(true)
				return
			}
			j := jobs[i]
			if err := j.n.Store.Materialize(w.Proj); err != nil {
				env.HarnessError("materialize: %v", err)
			}
			req := j.req
			req.Cwd = w.Proj + "/" + req.Cwd
			if req.RandBase < 0 {
				req.RandBase = j.n.N
			}
			res := w.Run(req)
			after, err := core.Snapshot(w.Proj)
			if err != nil {
				env.HarnessError("snapshot: %v", err)
			}
			atomic.AddInt64(&b.Transitions, 1)
			if b.Conf != nil {
				b.Conf.offer(w.Proj, j.n.Store, req, res)
			}
			if b.OnTransition != nil {
				b.OnTransition(w, j.n, req, res, after)
			}
			if b.Expand != nil && !b.Expand(j.n, req, res, after) {
				return
			}
			if b.OnTransition != nil {
				after.Materialize(w.Proj) // OnTransition may have run further commands
			}
			k, aux := b.KeyFn(w, after)
			mu.Lock()
			if _, ok := seen[k]; ok {
				mu.Unlock()
				return
			}
			if b.MaxStates > 0 && len(seen) >= b.MaxStates {
				b.Exhaustive = false
				b.CapHit = "max_states"
				mu.Unlock()
				return
			}
			rel := j.req
			rel.RandBase = req.RandBase // replays must hand out the same ids
			nn := &Node{Store: after, Key: k, Aux: aux, Parent: j.n, N: j.n.N + int64(res.Reads), Depth: depth + 1, Path: append(append([]core.Req{}, j.n.Path...), rel)}
			seen[k] = nn
			next = append(next, nn)
			mu.Unlock()
			if b.OnState != nil {
				b.OnState(w, nn) // project dir holds `after`
			}
		})
		if stop.Load() {
			b.Exhaustive = false
			b.CapHit = "deadline"
			b.Nodes = append(b.Nodes, next...)
			break
		}
		b.DepthDone = depth + 1
		sort.Slice(next, func(i, j int) bool { return next[i].Key < next[j].Key })
		b.Nodes = append(b.Nodes, next...)
		frontier = next
	}
	b.States = len(seen)
}

// traceFrom builds a replay trace: the root store is not recorded per node, so traces start from the
// node's own store (self-contained) followed by the extra steps.
func traceFrom(n *Node, note string, steps []core.Req, failIf ...Assert) Trace {
	return mkTrace(n.Store, note, steps, failIf...)
}
