// Package sched is a stateless model checker for real ergo processes: every process is parked at the
// verifPoint hooks compiled in under build tag `verif`; the controller lets exactly one process run at a
// time, so the schedule (a list of choices) is the only nondeterminism, and enumerates all schedules up to
// a preemption bound (iterative context bounding).
package sched

import (
	"bufio"
	"bytes"
	"fmt"
	"net"
	"os"
	"os/exec"
	"path/filepath"
	"strings"
	"sync"
	"sync/atomic"
	"syscall"
	"time"

	"verif/internal/core"
)

type Scenario struct {
	Name  string
	Store core.Store
	Procs []core.Req // Cwd relative to the project root
}

type Step struct {
	Proc  int
	Point string // the operation the process was about to perform when it was released
}

type Exec struct {
	Choices  []int
	Steps    []Step
	Enabled  [][]int
	Running  []int
	Results  []core.Res
	Points   [][]string   // per process: all points it announced
	StartAt  []int        // decision index at which the process was released from its first point (-1: never parked)
	ExitAt   []int        // decision index after which the process had exited (-1 = exited before any decision)
	Final    core.Store   // project dir after all processes exited
	Versions []core.Store // project dir after each decision (when requested); Versions[0] = initial
	Blocked  string       // non-empty: a released process neither announced a point nor exited
	Preempts int
	ParkedAt [][]string // per decision: the point each process is parked at ("" = exited)
	Aborted  bool       // the chooser cut the execution short (sleep-set blocked); not a complete execution
}

func (e *Exec) Schedule() string {
	var sb strings.Builder
	for i, s := range e.Steps {
		if i > 0 {
			sb.WriteString(" ")
		}
		fmt.Fprintf(&sb, "p%d:%s", s.Proc, s.Point)
	}
	return sb.String()
}

type event struct {
	proc  int
	point string // "" = exit
}

type Controller struct {
	Bin       string
	Snapshots bool
	HangAfter time.Duration
	// Choose, when set, overrides the default choice beyond the prefix: it returns the index into enabled of the
	// process to release, or -1 to abandon the execution.
	Choose func(d int, enabled []int, parked []string) int
}

// Run executes one schedule: choices beyond the prefix default to 0 (keep running the current process;
// else the lowest id). expect, when non-nil, lists the steps the prefix must reproduce (divergence = error).
func (c *Controller) Run(dir string, sc Scenario, prefix []int, expect []Step) (*Exec, error) {
	root := filepath.Join(dir, "proj")
	if err := sc.Store.Materialize(root); err != nil {
		return nil, err
	}
	sock := filepath.Join(dir, "s")
	os.Remove(sock)
	ln, err := net.Listen("unix", sock)
	if err != nil {
		return nil, err
	}
	defer ln.Close()
	n := len(sc.Procs)
	events := make(chan event, 4*n+16)
	conns := make([]net.Conn, n)
	var connMu sync.Mutex
	go func() {
		for {
			conn, err := ln.Accept()
			if err != nil {
				return
			}
			go func(conn net.Conn) {
				rd := bufio.NewReader(conn)
				hello, err := rd.ReadString('\n')
				if err != nil {
					return
				}
				var pid, id int
				if _, err := fmt.Sscanf(hello, "hello %d %d", &pid, &id); err != nil || id < 0 || id >= n {
					return
				}
				connMu.Lock()
				conns[id] = conn
				connMu.Unlock()
				for {
					line, err := rd.ReadString('\n')
					if err != nil {
						return
					}
					events <- event{id, strings.TrimSpace(line)}
				}
			}(conn)
		}
	}()
	cmds := make([]*exec.Cmd, n)
	outs := make([]*bytes.Buffer, n)
	errs := make([]*bytes.Buffer, n)
	ex := &Exec{Results: make([]core.Res, n), Points: make([][]string, n), StartAt: make([]int, n), ExitAt: make([]int, n)}
	exited := make([]chan int, n)
	killAll := func() {
		for _, cmd := range cmds {
			if cmd != nil && cmd.Process != nil {
				cmd.Process.Kill()
			}
		}
	}
	for i, r := range sc.Procs {
		cmd := exec.Command(c.Bin, r.Args...)
		cmd.Dir = filepath.Join(root, r.Cwd)
		env := core.CmdEnv("ERGO_VERIF_SOCK="+sock, fmt.Sprintf("ERGO_VERIF_ID=%d", i), "PWD="+cmd.Dir)
		if r.RandBase >= 0 {
			env = append(env, fmt.Sprintf("ERGO_VERIF_RAND=%d", r.RandBase))
		}
		cmd.Env = env
		if r.Stdin != nil {
			cmd.Stdin = bytes.NewReader(*r.Stdin)
		}
		outs[i], errs[i] = &bytes.Buffer{}, &bytes.Buffer{}
		cmd.Stdout, cmd.Stderr = outs[i], errs[i]
		if err := cmd.Start(); err != nil {
			killAll()
			return nil, err
		}
		cmds[i] = cmd
		exited[i] = make(chan int, 1)
		ex.StartAt[i], ex.ExitAt[i] = -1, -2
		go func(i int, cmd *exec.Cmd) {
			err := cmd.Wait()
			code := 0
			if err != nil {
				code = 99
				if ee, ok := err.(*exec.ExitError); ok {
					code = ee.ExitCode()
					if ws, ok := ee.Sys().(syscall.WaitStatus); ok && ws.Signaled() {
						code = 128 + int(ws.Signal())
					}
				}
			}
			exited[i] <- code
			events <- event{i, ""}
		}(i, cmd)
	}
	parked := make([]string, n) // current point of each live process
	alive := make([]bool, n)
	for i := range alive {
		alive[i] = true
	}
	hang := c.HangAfter
	if hang == 0 {
		hang = 20 * time.Second
	}
	// waitFor blocks until process p announces a point or exits.
	pending := map[int][]event{}
	waitFor := func(p int) (event, bool) {
		if q := pending[p]; len(q) > 0 {
			pending[p] = q[1:]
			return q[0], true
		}
		deadline := time.Now().Add(hang)
		tick := time.NewTicker(150 * time.Millisecond)
		defer tick.Stop()
		inFlock := 0
		for {
			select {
			case ev := <-events:
				if ev.proc == p {
					return ev, true
				}
				pending[ev.proc] = append(pending[ev.proc], ev)
			case <-tick.C:
				// a process sitting in flock(2) on consecutive looks while every other process is parked will never
				// come back: report it now instead of waiting for the watchdog
				if strings.Contains(diagnose(cmds[p].Process.Pid), "flock(2)") {
					inFlock++
					if inFlock >= 3 {
						return event{}, false
					}
				} else {
					inFlock = 0
				}
				if time.Now().After(deadline) {
					return event{}, false
				}
			}
		}
	}
	settle := func(p int, decision int) error {
		ev, ok := waitFor(p)
		if !ok {
			ex.Blocked = fmt.Sprintf("process %d (%s) neither reached a hook point nor exited within %s after being released at %q; %s",
				p, strings.Join(sc.Procs[p].Args, " "), hang, parked[p], diagnose(cmds[p].Process.Pid))
			return nil
		}
		if ev.point == "" {
			alive[p] = false
			parked[p] = ""
			ex.Results[p] = core.Res{Out: outs[p].Bytes(), Err: errs[p].Bytes(), Exit: <-exited[p]}
			ex.ExitAt[p] = decision
			return nil
		}
		// drop the byte offset of read.chunk@<off>: log sizes vary with timestamp widths between runs
		if i := strings.IndexByte(ev.point, '@'); i >= 0 {
			ev.point = ev.point[:i]
		}
		parked[p] = ev.point
		ex.Points[p] = append(ex.Points[p], ev.point)
		return nil
	}
	for i := 0; i < n; i++ { // initial phase: everyone parks at its first point (or exits early)
		if err := settle(i, -1); err != nil || ex.Blocked != "" {
			killAll()
			return ex, err
		}
	}
	snap := func() {
		if c.Snapshots {
			st, _ := core.Snapshot(root)
			ex.Versions = append(ex.Versions, st)
		}
	}
	snap()
	running := -1
	for d := 0; ; d++ {
		var enabled []int
		if running >= 0 && alive[running] {
			enabled = append(enabled, running)
		}
		for i := 0; i < n; i++ {
			if alive[i] && i != running {
				enabled = append(enabled, i)
			}
		}
		if len(enabled) == 0 {
			break
		}
		choice := 0
		if d < len(prefix) {
			choice = prefix[d]
		} else if c.Choose != nil {
			choice = c.Choose(d, enabled, append([]string{}, parked...))
			if choice < 0 {
				ex.Aborted = true
				killAll()
				return ex, nil
			}
		}
		if choice < 0 || choice >= len(enabled) {
			killAll()
			return ex, fmt.Errorf("schedule diverged: decision %d has %d enabled processes, prefix asks for choice %d (scenario %s, prefix %v)", d, len(enabled), choice, sc.Name, prefix)
		}
		p := enabled[choice]
		if running >= 0 && alive[running] && p != running {
			ex.Preempts++
		}
		step := Step{Proc: p, Point: parked[p]}
		if d < len(expect) && expect[d] != step {
			killAll()
			return ex, fmt.Errorf("schedule diverged at decision %d: expected %v, got %v (scenario %s)", d, expect[d], step, sc.Name)
		}
		ex.Choices = append(ex.Choices, choice)
		ex.Steps = append(ex.Steps, step)
		ex.Enabled = append(ex.Enabled, enabled)
		ex.Running = append(ex.Running, running)
		ex.ParkedAt = append(ex.ParkedAt, append([]string{}, parked...))
		if ex.StartAt[p] < 0 {
			ex.StartAt[p] = d
		}
		connMu.Lock()
		conn := conns[p]
		connMu.Unlock()
		if conn == nil {
			killAll()
			return ex, fmt.Errorf("no connection for parked process %d", p)
		}
		if _, err := conn.Write([]byte{1}); err != nil {
			killAll()
			return ex, fmt.Errorf("release of process %d failed: %v", p, err)
		}
		if err := settle(p, d); err != nil {
			killAll()
			return ex, err
		}
		if ex.Blocked != "" {
			killAll()
			return ex, nil
		}
		running = p
		snap()
	}
	st, err := core.Snapshot(root)
	if err != nil {
		return ex, err
	}
	delete(st, "s")
	ex.Final = st
	return ex, nil
}

// diagnose looks at what the threads of a stalled process are doing (syscall 73 = flock).
func diagnose(pid int) string {
	tasks, _ := filepath.Glob(fmt.Sprintf("/proc/%d/task/*/syscall", pid))
	var in []string
	for _, t := range tasks {
		b, err := os.ReadFile(t)
		if err != nil {
			continue
		}
		f := strings.Fields(string(b))
		if len(f) > 0 {
			in = append(in, f[0])
			if f[0] == "73" {
				return "a thread is blocked in flock(2): the process WAITS for the lock"
			}
		}
	}
	return "thread syscalls: " + strings.Join(in, ",")
}

// ---------------------------------------------------------------------------------------------
// exploration

type Explorer struct {
	Ctl      *Controller
	Scenario Scenario
	Bound    int
	Workers  int
	Dirs     []string // one scratch dir per worker
	Deadline time.Time
	// Check is called (concurrently) for every complete execution.
	Check func(ex *Exec)

	Executions int64
	Blocked    int64 // sleep-set blocked (abandoned) runs of the unbounded mode
	Complete   bool  // false if the deadline cut the exploration
	Err        error
}

type item struct {
	prefix []int
	expect []Step
}

// Explore enumerates every schedule whose number of preemptions is <= Bound.
func (x *Explorer) Explore() {
	var mu sync.Mutex
	stack := []item{{}}
	active := 0
	cond := sync.NewCond(&mu)
	x.Complete = true
	var wg sync.WaitGroup
	for w := 0; w < x.Workers; w++ {
		wg.Add(1)
		go func(w int) {
			defer wg.Done()
			for {
				mu.Lock()
				for len(stack) == 0 && active > 0 && x.Err == nil {
					cond.Wait()
				}
				if x.Err != nil || (len(stack) == 0 && active == 0) {
					mu.Unlock()
					cond.Broadcast()
					return
				}
				it := stack[len(stack)-1]
				stack = stack[:len(stack)-1]
				active++
				mu.Unlock()
				var children []item
				if time.Now().After(x.Deadline) {
					mu.Lock()
					x.Complete = false
					stack = nil
					active--
					mu.Unlock()
					cond.Broadcast()
					continue
				}
				ex, err := x.Ctl.Run(x.Dirs[w], x.Scenario, it.prefix, it.expect)
				if err != nil {
					mu.Lock()
					if x.Err == nil {
						x.Err = err
					}
					active--
					mu.Unlock()
					cond.Broadcast()
					return
				}
				atomic.AddInt64(&x.Executions, 1)
				x.Check(ex)
				if ex.Blocked == "" {
					cost := 0
					for i := 0; i < len(ex.Choices); i++ {
						runningEnabled := ex.Running[i] >= 0 && len(ex.Enabled[i]) > 0 && ex.Enabled[i][0] == ex.Running[i]
						if i >= len(it.prefix) {
							c := cost
							if runningEnabled {
								c++
							}
							if c <= x.Bound {
								for alt := 1; alt < len(ex.Enabled[i]); alt++ {
									np := append(append([]int{}, ex.Choices[:i]...), alt)
									ne := append([]Step{}, ex.Steps[:i]...)
									children = append(children, item{np, ne})
								}
							}
						}
						if runningEnabled && ex.Choices[i] != 0 {
							cost++
						}
					}
				}
				mu.Lock()
				stack = append(stack, children...)
				active--
				mu.Unlock()
				cond.Broadcast()
			}
		}(w)
	}
	wg.Wait()
}

// ---------------------------------------------------------------------------------------------
// unbounded exploration with sleep sets

// opClass abstracts what the step that starts at a hook point does to shared state (everything up to the next
// point): 'L' lock operation, 'W' store write, 'R' store read, '-' local. The relation is deliberately coarse.
func opClass(point string) byte {
	switch point {
	case "lock.try", "lock.release":
		return 'L'
	case "lock.held":
		return '-'
	case "append.open", "append.write", "tmp.open", "tmp.write", "tmp.flush", "tmp.sync", "replace.rename", "ensure.create":
		return 'W'
	}
	return 'R' // start (discovers .ergo), path.stat, lock.open, read.*, ensure.stat, replace.syncdir, unknown points
}

// Independent: the two steps commute and neither enables/disables the other (all processes are always enabled:
// the lock is non-blocking). Two steps are dependent iff both touch the lock, or both touch the store and one writes.
func Independent(a, b string) bool {
	ca, cb := opClass(a), opClass(b)
	if ca == '-' || cb == '-' {
		return true
	}
	if ca == 'L' || cb == 'L' {
		return !(ca == 'L' && cb == 'L')
	}
	return ca == 'R' && cb == 'R'
}

type sleepItem struct {
	procs []int // process released at each decision of the prefix
	sleep []int // sleep set in the state after the prefix
}

// ExploreUnbounded enumerates all interleavings modulo the independence relation (sleep sets, no bound).
// It stops after maxExec complete executions (Complete=false then).
func (x *Explorer) ExploreUnbounded(maxExec int64) {
	var mu sync.Mutex
	stack := []sleepItem{{}}
	active := 0
	cond := sync.NewCond(&mu)
	x.Complete = true
	var wg sync.WaitGroup
	for w := 0; w < x.Workers; w++ {
		wg.Add(1)
		go func(w int) {
			defer wg.Done()
			for {
				mu.Lock()
				for len(stack) == 0 && active > 0 && x.Err == nil {
					cond.Wait()
				}
				if x.Err != nil || (len(stack) == 0 && active == 0) {
					mu.Unlock()
					cond.Broadcast()
					return
				}
				it := stack[len(stack)-1]
				stack = stack[:len(stack)-1]
				active++
				mu.Unlock()
				if time.Now().After(x.Deadline) || atomic.LoadInt64(&x.Executions) >= maxExec {
					mu.Lock()
					x.Complete = false
					stack = nil
					active--
					mu.Unlock()
					cond.Broadcast()
					continue
				}
				var children []sleepItem
				sleep := append([]int{}, it.sleep...) // meaningful from decision len(it.procs) on
				var released []int                    // processes released so far in this run
				diverged := false
				ctl := *x.Ctl
				ctl.Choose = func(d int, enabled []int, parked []string) int {
					pick := func(p int) int {
						for i, q := range enabled {
							if q == p {
								released = append(released, p)
								return i
							}
						}
						return -1
					}
					if d < len(it.procs) { // replay the prefix by process id
						i := pick(it.procs[d])
						if i < 0 {
							diverged = true
						}
						return i
					}
					var todo []int
					for _, p := range enabled {
						asleep := false
						for _, q := range sleep {
							asleep = asleep || q == p
						}
						if !asleep {
							todo = append(todo, p)
						}
					}
					if len(todo) == 0 {
						return -1 // sleep-set blocked: every continuation from here is covered by another run
					}
					var done, chosenSleep []int
					for k, p := range todo {
						var ns []int
						for _, q := range append(append([]int{}, sleep...), done...) {
							if q != p && parked[q] != "" && Independent(parked[q], parked[p]) {
								ns = append(ns, q)
							}
						}
						if k == 0 {
							chosenSleep = ns
						} else {
							children = append(children, sleepItem{procs: append(append([]int{}, released...), p), sleep: ns})
						}
						done = append(done, p)
					}
					sleep = chosenSleep
					return pick(todo[0])
				}
				ex, err := ctl.Run(x.Dirs[w], x.Scenario, nil, nil)
				if err == nil && diverged {
					err = fmt.Errorf("schedule diverged while replaying a sleep-set prefix %v (scenario %s)", it.procs, x.Scenario.Name)
				}
				if err != nil {
					mu.Lock()
					if x.Err == nil {
						x.Err = err
					}
					active--
					mu.Unlock()
					cond.Broadcast()
					return
				}
				if !ex.Aborted {
					atomic.AddInt64(&x.Executions, 1)
					x.Check(ex)
				} else {
					atomic.AddInt64(&x.Blocked, 1)
				}
				mu.Lock()
				stack = append(stack, children...)
				active--
				mu.Unlock()
				cond.Broadcast()
			}
		}(w)
	}
	wg.Wait()
}
