// Package crash kills the production ergo binary with SIGKILL on entry to each store-mutating system call
// (strace fault injection), so that every state a process death can leave behind is produced by the real
// code path; torn writes are derived by cutting the last completed write short.
package crash

import (
	"bytes"
	"fmt"
	"os"
	"os/exec"
	"path/filepath"
	"regexp"
	"strconv"
	"strings"
	"syscall"
	"time"

	"verif/internal/core"
)

// Call is one traced system call that touches the store.
type Call struct {
	Name      string
	Args      string
	Ret       int64
	Mutating  bool
	Path      string // store file it concerns (relative to the project root), if recognisable
	NthOfName int    // 1-based ordinal among traced calls with the same name (strace's `when=`)
}

func (c Call) String() string {
	return fmt.Sprintf("%s(%s)=%d", c.Name, clip(c.Args, 110), c.Ret)
}

func clip(s string, n int) string {
	if len(s) > n {
		return s[:n] + "…"
	}
	return s
}

const traceSet = "openat,open,creat,write,pwrite64,writev,rename,renameat,renameat2,unlink,unlinkat,mkdir,mkdirat,ftruncate,truncate,fsync,fdatasync,flock,link,linkat,symlink,symlinkat,close,read,pread64"

var lineRe = regexp.MustCompile(`^(\d+)\s+(\w+)\((.*)\)\s+=\s+(-?\d+|\?)`)
var killedRe = regexp.MustCompile(`^(\d+)\s+\+\+\+ killed by SIGKILL \+\+\+`)
var unfinishedRe = regexp.MustCompile(`^(\d+)\s+(\w+)\((.*) <unfinished \.\.\.>`)
var resumedRe = regexp.MustCompile(`^(\d+)\s+<\.\.\. (\w+) resumed>(.*)\)\s+=\s+(-?\d+|\?)`)

// storePaths are the paths strace filters on (-P): the .ergo directory and every file ergo keeps in it.
func storePaths(root string) []string {
	d := filepath.Join(root, ".ergo")
	return []string{d, filepath.Join(d, "plans.jsonl"), filepath.Join(d, "plans.jsonl.tmp"), filepath.Join(d, "events.jsonl"),
		filepath.Join(d, "events.jsonl.tmp"), filepath.Join(d, "lock"), filepath.Join(d, "plans.jsonl.bak"), filepath.Join(d, "events.jsonl.bak")}
}

type Trace struct {
	Calls  []Call
	Killed bool
	Exit   int
	Out    []byte
	Err    []byte
	Raw    string
}

// Mutating returns the indices of the store-mutating calls.
func (t *Trace) Mutating() []int {
	var out []int
	for i, c := range t.Calls {
		if c.Mutating {
			out = append(out, i)
		}
	}
	return out
}

// Run executes one command under strace; inject "" = plain trace, else e.g. "write:signal=SIGKILL:when=2".
func Run(bin, root string, req core.Req, inject, scratch string) (*Trace, error) {
	tf := filepath.Join(scratch, "strace.out")
	os.Remove(tf)
	trace := traceSet
	if inject != "" {
		// a call injected into must be traced; calls outside the standard set (e.g. fstat) are added for this run only
		if name := strings.SplitN(inject, ":", 2)[0]; !strings.Contains(","+traceSet+",", ","+name+",") {
			trace += "," + name
		}
	}
	args := []string{"-f", "-y", "-o", tf, "-e", "trace=" + trace}
	if inject != "" {
		args = append(args, "-e", "inject="+inject)
	}
	for _, p := range storePaths(root) {
		args = append(args, "-P", p)
	}
	args = append(args, bin)
	args = append(args, req.Args...)
	cmd := exec.Command("strace", args...)
	cmd.Dir = filepath.Join(root, req.Cwd)
	cmd.Env = core.CmdEnv("PWD=" + cmd.Dir)
	if req.Stdin != nil {
		cmd.Stdin = bytes.NewReader(*req.Stdin)
	}
	var o, e bytes.Buffer
	cmd.Stdout, cmd.Stderr = &o, &e
	err := cmd.Run()
	t := &Trace{Out: o.Bytes(), Err: e.Bytes()}
	if err != nil {
		if ee, ok := err.(*exec.ExitError); ok {
			t.Exit = ee.ExitCode()
			if ws, ok := ee.Sys().(syscall.WaitStatus); ok && ws.Signaled() {
				t.Exit = 128 + int(ws.Signal())
			}
		} else {
			return nil, fmt.Errorf("strace: %v (%s)", err, e.String())
		}
	}
	raw, rerr := os.ReadFile(tf)
	if rerr != nil {
		return nil, fmt.Errorf("strace produced no trace: %v; stderr: %s", rerr, e.String())
	}
	t.Raw = string(raw)
	perName := map[string]int{}
	pending := map[string]Call{} // pid -> call split over an unfinished/resumed pair
	for _, ln := range strings.Split(t.Raw, "\n") {
		if killedRe.MatchString(ln) {
			t.Killed = true
			continue
		}
		if r := resumedRe.FindStringSubmatch(ln); r != nil {
			if pc, ok := pending[r[1]]; ok && pc.Name == r[2] {
				delete(pending, r[1])
				if r[4] == "?" {
					continue // never returned: the kill landed on it
				}
				ret, _ := strconv.ParseInt(r[4], 10, 64)
				pc.Args += r[3]
				pc.Ret = ret
				pc.Mutating, pc.Path = classify(pc, root)
				t.Calls = append(t.Calls, pc)
			}
			continue
		}
		m := lineRe.FindStringSubmatch(ln)
		if m == nil {
			if u := unfinishedRe.FindStringSubmatch(ln); u != nil {
				// a call that has not returned yet (or never will: the kill landed on it); it counts for strace's per-name counter
				perName[u[2]]++
				pending[u[1]] = Call{Name: u[2], Args: u[3], NthOfName: perName[u[2]]}
			}
			continue
		}
		perName[m[2]]++
		if m[4] == "?" {
			continue
		}
		ret, _ := strconv.ParseInt(m[4], 10, 64)
		c := Call{Name: m[2], Args: m[3], Ret: ret}
		c.NthOfName = perName[c.Name]
		c.Mutating, c.Path = classify(c, root)
		t.Calls = append(t.Calls, c)
	}
	return t, nil
}

func classify(c Call, root string) (bool, string) {
	path := ""
	if i := strings.Index(c.Args, root+"/"); i >= 0 {
		rest := c.Args[i+len(root)+1:]
		if j := strings.IndexAny(rest, "\">,"); j >= 0 {
			rest = rest[:j]
		}
		path = rest
	}
	if c.Ret < 0 {
		return false, path
	}
	switch c.Name {
	case "openat", "open":
		if strings.Contains(c.Args, "O_CREAT") || strings.Contains(c.Args, "O_TRUNC") {
			return true, path
		}
		return false, path
	case "creat", "write", "pwrite64", "writev", "rename", "renameat", "renameat2", "unlink", "unlinkat", "mkdir", "mkdirat", "ftruncate", "truncate", "link", "linkat", "symlink", "symlinkat":
		return true, path
	}
	return false, path
}

// KillAt runs the command and kills it on entry to call `target` of the reference trace. It verifies from the
// injected run's own trace that exactly the calls before target completed; ok=false means the kill did not land
// where intended (strace counts per thread; the caller retries).
func KillAt(bin, root string, req core.Req, ref *Trace, target int, scratch string) (ok bool, t *Trace, err error) {
	c := ref.Calls[target]
	t, err = Run(bin, root, req, fmt.Sprintf("%s:signal=SIGKILL:when=%d", c.Name, c.NthOfName), scratch)
	if err != nil {
		return false, nil, err
	}
	if !t.Killed {
		return false, t, nil
	}
	// the completed mutating calls must be exactly the reference's mutating calls before target
	var want, got []string
	for i := 0; i < target; i++ {
		if ref.Calls[i].Mutating {
			want = append(want, ref.Calls[i].Name+" "+ref.Calls[i].Path)
		}
	}
	for _, k := range t.Calls {
		if k.Mutating {
			got = append(got, k.Name+" "+k.Path)
		}
	}
	return strings.Join(want, "|") == strings.Join(got, "|"), t, nil
}

// RunStdinFault runs the command under strace with its standard input coming from a named pipe that delivers
// the given chunks one by one, and injects `error` (e.g. "EIO") into the k-th read(2) on that pipe (k>=1).
// Returns exit status, stdout, stderr and whether the injected read shows up in the trace.
func RunStdinFault(bin, cwd string, args []string, chunks [][]byte, k int, errno, scratch string) (exit int, out, errOut []byte, injected bool, err error) {
	fifo := filepath.Join(scratch, "stdin.fifo")
	os.Remove(fifo)
	if err = syscall.Mkfifo(fifo, 0o600); err != nil {
		return
	}
	defer os.Remove(fifo)
	tf := filepath.Join(scratch, "strace-stdin.out")
	os.Remove(tf)
	sargs := []string{"-f", "-y", "-o", tf, "-e", "trace=read", "-P", fifo}
	if k > 0 {
		sargs = append(sargs, "-e", fmt.Sprintf("inject=read:error=%s:when=%d", errno, k))
	}
	sargs = append(sargs, bin)
	sargs = append(sargs, args...)
	cmd := exec.Command("strace", sargs...)
	cmd.Dir = cwd
	cmd.Env = core.CmdEnv("PWD=" + cwd)
	// open the read end without blocking on the writer, then hand it to the child
	rfd, oerr := os.OpenFile(fifo, os.O_RDONLY|syscall.O_NONBLOCK, 0)
	if oerr != nil {
		err = oerr
		return
	}
	// the child must see a blocking descriptor
	if ferr := syscall.SetNonblock(int(rfd.Fd()), false); ferr != nil {
		err = ferr
		return
	}
	cmd.Stdin = rfd
	var o, e bytes.Buffer
	cmd.Stdout, cmd.Stderr = &o, &e
	wfd, werr := os.OpenFile(fifo, os.O_WRONLY, 0)
	if werr != nil {
		rfd.Close()
		err = werr
		return
	}
	if err = cmd.Start(); err != nil {
		rfd.Close()
		wfd.Close()
		return
	}
	rfd.Close()
	go func() {
		for _, c := range chunks {
			wfd.Write(c)
			time.Sleep(30 * time.Millisecond) // let the reader take this chunk in a read of its own
		}
		wfd.Close()
	}()
	werr = cmd.Wait()
	if werr != nil {
		if ee, ok := werr.(*exec.ExitError); ok {
			exit = ee.ExitCode()
		} else {
			err = werr
			return
		}
	}
	raw, _ := os.ReadFile(tf)
	injected = bytes.Contains(raw, []byte("(INJECTED)")) || k <= 0
	return exit, o.Bytes(), e.Bytes(), injected, nil
}
