// Package core holds the machinery shared by all checks: building the two ergo binaries from the
// repository's current working tree, running real commands (spawned process or in-process server),
// store snapshots, observations, evidence files, known findings and replay artefacts.
package core

import (
	"encoding/json"
	"fmt"
	"os"
	"os/exec"
	"path/filepath"
	"runtime"
	"strconv"
	"strings"
	"sync"
	"time"
)

type Env struct {
	PropID   string
	Tier     string // quick | thorough
	Seed     int64
	Repo     string // tree to build (default /repo, override VERIF_REPO)
	Home     string // /verif
	Scratch  string // per-run scratch dir (tmpfs)
	Prod     string // production binary (no tag, no overlay)
	Verif    string // -tags verif + server overlay
	Start    time.Time
	Deadline time.Time
	Workers  int

	mu         sync.Mutex
	violations map[string]*violationRec
	known      []KnownFinding
	knownHit   map[string]int
	exitCode   int
	pool       []*Worker
}

func envOr(k, d string) string {
	if v := os.Getenv(k); v != "" {
		return v
	}
	return d
}

func NewEnv(prop, tier string) (*Env, error) {
	e := &Env{PropID: prop, Tier: tier, Start: time.Now()}
	e.Repo = envOr("VERIF_REPO", "/repo")
	e.Home = envOr("VERIF_HOME", "/verif")
	if s := os.Getenv("VERIF_SEED"); s != "" {
		e.Seed, _ = strconv.ParseInt(s, 10, 64)
	}
	base := "/dev/shm"
	if st, err := os.Stat(base); err != nil || !st.IsDir() {
		base = os.TempDir()
	}
	probe := filepath.Join(base, fmt.Sprintf("verif-%d-%s", os.Getpid(), prop))
	if err := os.MkdirAll(probe, 0o755); err != nil {
		base = os.TempDir()
		probe = filepath.Join(base, fmt.Sprintf("verif-%d-%s", os.Getpid(), prop))
		if err := os.MkdirAll(probe, 0o755); err != nil {
			return nil, err
		}
	}
	e.Scratch = probe
	e.Workers = runtime.NumCPU()
	if w := os.Getenv("VERIF_WORKERS"); w != "" {
		if n, err := strconv.Atoi(w); err == nil && n > 0 {
			e.Workers = n
		}
	}
	budget := 600 * time.Second // quick: the slowest check takes ~100 s on an idle 16-core machine; the margin is for loaded ones
	if tier == "thorough" {
		budget = 30 * time.Minute
	}
	if b := os.Getenv("VERIF_BUDGET_S"); b != "" {
		if n, err := strconv.Atoi(b); err == nil && n > 0 {
			budget = time.Duration(n) * time.Second
		}
	}
	e.Deadline = e.Start.Add(budget)
	e.violations = map[string]*violationRec{}
	e.knownHit = map[string]int{}
	var err error
	e.known, err = LoadKnown(filepath.Join(e.Home, "known_findings.txt"))
	if err != nil {
		return nil, err
	}
	return e, nil
}

func (e *Env) Thorough() bool { return e.Tier == "thorough" }

// TimeLeft reports whether the internal deadline has not been reached.
func (e *Env) TimeLeft() bool { return time.Now().Before(e.Deadline) }

func (e *Env) Cleanup() {
	for _, w := range e.pool {
		w.Close()
	}
	os.RemoveAll(e.Scratch)
}

func (e *Env) Logf(format string, a ...interface{}) {
	fmt.Fprintf(os.Stderr, "[%s %6.1fs] %s\n", e.PropID, time.Since(e.Start).Seconds(), fmt.Sprintf(format, a...))
}

// HarnessError aborts the run with exit 3: something is wrong with the machinery, not with ergo.
func (e *Env) HarnessError(format string, a ...interface{}) {
	fmt.Fprintf(os.Stderr, "HARNESS-ERROR property=%s %s\n", e.PropID, fmt.Sprintf(format, a...))
	e.Cleanup()
	if fresh, _ := e.NumViolations(); fresh > 0 {
		os.Exit(1) // violations were already confirmed and printed; the later harness trouble does not unsay them
	}
	os.Exit(3)
}

func goEnv() []string {
	env := os.Environ()
	out := env[:0:0]
	for _, kv := range env {
		if strings.HasPrefix(kv, "GOFLAGS=") || strings.HasPrefix(kv, "GOPROXY=") || strings.HasPrefix(kv, "GOSUMDB=") {
			continue
		}
		out = append(out, kv)
	}
	out = append(out, "GOFLAGS=-mod=mod", "GOPROXY=off")
	return out
}

// Build compiles the production binary and the verif binary from e.Repo's working tree.
func (e *Env) Build() error {
	bdir := filepath.Join(e.Scratch, "build")
	if err := os.MkdirAll(bdir, 0o755); err != nil {
		return err
	}
	for _, f := range []string{"go.mod", "go.sum"} {
		b, err := os.ReadFile(filepath.Join(e.Repo, f))
		if err != nil {
			return err
		}
		for _, sub := range []string{"p", "v"} {
			os.MkdirAll(filepath.Join(bdir, sub), 0o755)
			if err := os.WriteFile(filepath.Join(bdir, sub, f), b, 0o644); err != nil {
				return err
			}
		}
	}
	ov := map[string]map[string]string{"Replace": {
		filepath.Join(e.Repo, "cmd/ergo/zz_verif_server.go"): filepath.Join(e.Home, "harness/zz_verif_server.go"),
	}}
	ovb, _ := json.Marshal(ov)
	ovPath := filepath.Join(bdir, "overlay.json")
	if err := os.WriteFile(ovPath, ovb, 0o644); err != nil {
		return err
	}
	e.Prod = filepath.Join(bdir, "ergo-prod")
	e.Verif = filepath.Join(bdir, "ergo-verif")
	type job struct {
		args []string
		out  string
	}
	jobs := []job{
		{[]string{"build", "-modfile=" + filepath.Join(bdir, "p", "go.mod"), "-o", e.Prod, "./cmd/ergo"}, e.Prod},
		{[]string{"build", "-tags", "verif", "-modfile=" + filepath.Join(bdir, "v", "go.mod"), "-overlay", ovPath, "-o", e.Verif, "./cmd/ergo"}, e.Verif},
	}
	errs := make([]error, len(jobs))
	var wg sync.WaitGroup
	for i, j := range jobs {
		wg.Add(1)
		go func(i int, j job) {
			defer wg.Done()
			run := func(goBin string, extraEnv ...string) error {
				cmd := exec.Command(goBin, j.args...)
				cmd.Dir = e.Repo
				cmd.Env = append(goEnv(), extraEnv...)
				outb, err := cmd.CombinedOutput()
				if err != nil {
					return fmt.Errorf("%s %v: %v\n%s", goBin, j.args, err, outb)
				}
				return nil
			}
			err := run("go")
			if err != nil {
				if err2 := run("go1.26", "GOTOOLCHAIN=local"); err2 != nil {
					errs[i] = fmt.Errorf("%v\nfallback: %v", err, err2)
				}
			}
		}(i, j)
	}
	wg.Wait()
	for _, err := range errs {
		if err != nil {
			return err
		}
	}
	return nil
}
