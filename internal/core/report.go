package core

import (
	"bufio"
	"crypto/sha256"
	"encoding/hex"
	"encoding/json"
	"fmt"
	"os"
	"path/filepath"
	"sort"
	"strings"
	"time"
)

// KnownFinding is one line of /verif/known_findings.txt:
//
//	known: property=C10 sig=<signature> :: what fails
//	fixed: property=C06 <commit> <what failed>        (suppresses nothing)
type KnownFinding struct {
	Property string
	Sig      string
	Text     string
}

func LoadKnown(path string) ([]KnownFinding, error) {
	f, err := os.Open(path)
	if err != nil {
		if os.IsNotExist(err) {
			return nil, nil
		}
		return nil, err
	}
	defer f.Close()
	var out []KnownFinding
	sc := bufio.NewScanner(f)
	for sc.Scan() {
		ln := strings.TrimSpace(sc.Text())
		if !strings.HasPrefix(ln, "known:") {
			continue
		}
		rest := strings.TrimSpace(strings.TrimPrefix(ln, "known:"))
		head, text, _ := strings.Cut(rest, "::")
		var k KnownFinding
		k.Text = strings.TrimSpace(text)
		if i := strings.Index(head, "sig="); i >= 0 {
			k.Sig = strings.TrimSpace(head[i+4:])
			head = head[:i]
		}
		for _, f := range strings.Fields(head) {
			if v, ok := strings.CutPrefix(f, "property="); ok {
				k.Property = v
			}
		}
		if k.Property != "" && k.Sig != "" {
			out = append(out, k)
		}
	}
	return out, sc.Err()
}

type violationRec struct {
	Sig    string
	Detail string
	Replay string
	Count  int
	Known  bool
}

// Violation records a confirmed property violation. sig identifies call site + shape of the wrong
// outcome (used for known-finding matching and de-duplication); replay is any JSON-able artefact.
// It returns true when the violation is new (first of its signature).
func (e *Env) Violation(sig, detail string, replay interface{}) bool {
	e.mu.Lock()
	defer e.mu.Unlock()
	if v, ok := e.violations[sig]; ok {
		v.Count++
		return false
	}
	rec := &violationRec{Sig: sig, Detail: detail, Count: 1}
	for _, k := range e.known {
		if k.Property == e.PropID && k.Sig == sig {
			rec.Known = true
			e.violations[sig] = rec
			fmt.Printf("KNOWN-FINDING: property=%s sig=%s %s\n", e.PropID, sig, k.Text)
			return true
		}
	}
	h := sha256.Sum256([]byte(sig))
	dir := filepath.Join(e.OutDir(), "replays")
	os.MkdirAll(dir, 0o755)
	path := filepath.Join(dir, fmt.Sprintf("%s-%s.json", e.PropID, hex.EncodeToString(h[:5])))
	art := map[string]interface{}{
		"property": e.PropID, "signature": sig, "detail": detail, "tier": e.Tier,
		"repo": e.Repo, "replay": replay, "found_at": time.Now().UTC().Format(time.RFC3339),
	}
	b, _ := json.MarshalIndent(art, "", " ")
	os.WriteFile(path, b, 0o644)
	rec.Replay = path
	e.violations[sig] = rec
	e.exitCode = 1
	fmt.Printf("VIOLATION property=%s replay=%s\n", e.PropID, path)
	fmt.Printf("  signature: %s\n  detail: %s\n", sig, clip(detail, 1500))
	return true
}

// ViolationSeen reports whether a signature was already recorded (to skip expensive confirmation).
func (e *Env) ViolationSeen(sig string) bool {
	e.mu.Lock()
	defer e.mu.Unlock()
	if v, ok := e.violations[sig]; ok {
		v.Count++
		return true
	}
	return false
}

func (e *Env) NumViolations() (fresh, known int) {
	e.mu.Lock()
	defer e.mu.Unlock()
	for _, v := range e.violations {
		if v.Known {
			known++
		} else {
			fresh++
		}
	}
	return
}

// Evidence mirrors EVIDENCE.schema.json.
type Evidence struct {
	PropertyID  string                 `json:"property_id"`
	Tier        string                 `json:"tier"`
	Seed        int64                  `json:"seed"`
	Level       string                 `json:"level"`
	Coverage    map[string]interface{} `json:"coverage"`
	Assumptions []string               `json:"assumptions,omitempty"`
	WallS       float64                `json:"wall_s"`
	Violations  int                    `json:"violations"`
}

// Finish writes the evidence file, prints the summary and exits.
func (e *Env) Finish(level string, coverage map[string]interface{}, assumptions []string) {
	fresh, known := e.NumViolations()
	e.mu.Lock()
	var sigs []map[string]interface{}
	var keys []string
	for k := range e.violations {
		keys = append(keys, k)
	}
	sort.Strings(keys)
	for _, k := range keys {
		v := e.violations[k]
		sigs = append(sigs, map[string]interface{}{"signature": v.Sig, "occurrences": v.Count, "known_finding": v.Known, "replay": v.Replay})
	}
	e.mu.Unlock()
	if len(sigs) > 0 {
		coverage["violation_signatures"] = sigs
	}
	coverage["known_findings_reproduced"] = known
	coverage["deadline_hit"] = !e.TimeLeft()
	coverage["repo"] = e.Repo
	ev := Evidence{PropertyID: e.PropID, Tier: e.Tier, Seed: e.Seed, Level: level, Coverage: coverage,
		Assumptions: assumptions, WallS: time.Since(e.Start).Seconds(), Violations: fresh}
	b, _ := json.MarshalIndent(ev, "", " ")
	dir := filepath.Join(e.OutDir(), "evidence")
	os.MkdirAll(dir, 0o755)
	if err := os.WriteFile(filepath.Join(dir, e.PropID+".json"), append(b, '\n'), 0o644); err != nil {
		e.HarnessError("cannot write evidence: %v", err)
	}
	summary := map[string]interface{}{}
	for _, k := range []string{"states", "transitions", "evaluations", "distinct_nontrivial", "traces_validated_against_impl", "exhaustive", "bound_completed"} {
		if v, ok := coverage[k]; ok {
			summary[k] = v
		}
	}
	sb, _ := json.Marshal(summary)
	fmt.Printf("RESULT property=%s tier=%s violations=%d known_findings=%d wall=%.1fs %s\n", e.PropID, e.Tier, fresh, known, ev.WallS, sb)
	code := e.exitCode
	e.Cleanup()
	os.Exit(code)
}

// OutDir is where evidence/ and replays/ are written: /verif, or VERIF_OUT when set (used when the
// checks are pointed at a scratch copy of the repository, so that committed evidence is never overwritten).
func (e *Env) OutDir() string {
	if v := os.Getenv("VERIF_OUT"); v != "" {
		return v
	}
	return e.Home
}
