package core

import (
	"bytes"
	"crypto/sha256"
	"encoding/hex"
	"encoding/json"
	"fmt"
	"io/fs"
	"os"
	"path/filepath"
	"regexp"
	"sort"
	"strings"
)

// Store is the complete content of a project directory: relative path -> bytes.
// Symlinks are recorded as "->target" under key "L:"+path; directories under "D:"+path.
type Store map[string][]byte

func (s Store) Clone() Store {
	c := make(Store, len(s))
	for k, v := range s {
		c[k] = v
	}
	return c
}

// Key is a stable digest of the whole store.
func (s Store) Key() string {
	keys := make([]string, 0, len(s))
	for k := range s {
		keys = append(keys, k)
	}
	sort.Strings(keys)
	h := sha256.New()
	for _, k := range keys {
		fmt.Fprintf(h, "%s\x00%d\x00", k, len(s[k]))
		h.Write(s[k])
	}
	return hex.EncodeToString(h.Sum(nil)[:12])
}

func (s Store) Log() []byte {
	if b, ok := s[".ergo/plans.jsonl"]; ok {
		return b
	}
	return s[".ergo/events.jsonl"]
}

func (s Store) LogName() string {
	if _, ok := s[".ergo/plans.jsonl"]; ok {
		return ".ergo/plans.jsonl"
	}
	if _, ok := s[".ergo/events.jsonl"]; ok {
		return ".ergo/events.jsonl"
	}
	return ".ergo/plans.jsonl"
}

func (s Store) WithLog(b []byte) Store {
	c := s.Clone()
	c[s.LogName()] = b
	return c
}

// Materialize wipes root and writes the store there.
func (s Store) Materialize(root string) error {
	entries, _ := os.ReadDir(root)
	for _, e := range entries {
		os.RemoveAll(filepath.Join(root, e.Name()))
	}
	if err := os.MkdirAll(root, 0o755); err != nil {
		return err
	}
	keys := make([]string, 0, len(s))
	for k := range s {
		keys = append(keys, k)
	}
	sort.Strings(keys)
	for _, k := range keys {
		switch {
		case strings.HasPrefix(k, "D:"):
			if err := os.MkdirAll(filepath.Join(root, k[2:]), 0o755); err != nil {
				return err
			}
		case strings.HasPrefix(k, "L:"):
			p := filepath.Join(root, k[2:])
			os.MkdirAll(filepath.Dir(p), 0o755)
			if err := os.Symlink(string(s[k]), p); err != nil {
				return err
			}
		default:
			p := filepath.Join(root, k)
			if err := os.MkdirAll(filepath.Dir(p), 0o755); err != nil {
				return err
			}
			if err := os.WriteFile(p, s[k], 0o644); err != nil {
				return err
			}
		}
	}
	return nil
}

// Snapshot reads a project directory back into a Store.
func Snapshot(root string) (Store, error) {
	s := Store{}
	err := filepath.WalkDir(root, func(p string, d fs.DirEntry, err error) error {
		if err != nil {
			return err
		}
		rel, _ := filepath.Rel(root, p)
		if rel == "." {
			return nil
		}
		switch {
		case d.IsDir():
			s["D:"+rel] = nil
		case d.Type()&fs.ModeSymlink != 0:
			t, _ := os.Readlink(p)
			s["L:"+rel] = []byte(t)
		case d.Type().IsRegular():
			b, err := os.ReadFile(p)
			if err != nil {
				return err
			}
			s[rel] = b
		default:
			s["X:"+rel] = []byte(d.Type().String())
		}
		return nil
	})
	return s, err
}

// ---------------------------------------------------------------------------------------------
// events

type Event struct {
	Type string                 `json:"type"`
	TS   string                 `json:"ts"`
	Data map[string]interface{} `json:"data"`
	Raw  string                 `json:"-"`
}

// ParseLog parses whole lines; ok=false when some complete line is not an event.
func ParseLog(b []byte) (evs []Event, ok bool) {
	ok = true
	lines := bytes.Split(b, []byte("\n"))
	for i, ln := range lines {
		if len(bytes.TrimSpace(ln)) == 0 {
			continue
		}
		var ev Event
		if err := json.Unmarshal(ln, &ev); err != nil || ev.Type == "" {
			if i == len(lines)-1 { // unterminated tail
				continue
			}
			ok = false
			continue
		}
		ev.Raw = string(ln)
		evs = append(evs, ev)
	}
	return evs, ok
}

var tsRe = regexp.MustCompile(`^\d{4}-\d{2}-\d{2}T\d{2}:\d{2}:\d{2}(\.\d+)?Z$`)

func IsTS(s string) bool { return tsRe.MatchString(s) }

// CanonLog renders a log with timestamps replaced by their rank among the log's distinct
// timestamps and uuids dropped. With scripted ids this is a sound state key: replay reads nothing
// else (event order, ids, relative timestamp order).
func CanonLog(b []byte) string {
	evs, _ := ParseLog(b)
	var all []string
	var walk func(v interface{}, f func(string))
	walk = func(v interface{}, f func(string)) {
		switch x := v.(type) {
		case map[string]interface{}:
			for _, y := range x {
				walk(y, f)
			}
		case []interface{}:
			for _, y := range x {
				walk(y, f)
			}
		case string:
			if IsTS(x) {
				f(x)
			}
		}
	}
	seen := map[string]bool{}
	for _, ev := range evs {
		add := func(s string) {
			if !seen[s] {
				seen[s] = true
				all = append(all, s)
			}
		}
		if IsTS(ev.TS) {
			add(ev.TS)
		}
		walk(ev.Data, add)
	}
	sort.Strings(all) // RFC3339Nano with trailing zeros trimmed does not sort lexically in general; use parsed order
	sort.Slice(all, func(i, j int) bool { return tsLess(all[i], all[j]) })
	rank := map[string]string{}
	for i, s := range all {
		rank[s] = fmt.Sprintf("T%d", i)
	}
	var sb strings.Builder
	var rew func(v interface{}) interface{}
	rew = func(v interface{}) interface{} {
		switch x := v.(type) {
		case map[string]interface{}:
			m := map[string]interface{}{}
			for k, y := range x {
				if k == "uuid" {
					continue
				}
				m[k] = rew(y)
			}
			return m
		case []interface{}:
			o := make([]interface{}, len(x))
			for i, y := range x {
				o[i] = rew(y)
			}
			return o
		case string:
			if r, ok := rank[x]; ok {
				return r
			}
		}
		return v
	}
	for _, ev := range evs {
		d, _ := json.Marshal(rew(ev.Data))
		ts := ev.TS
		if r, ok := rank[ts]; ok {
			ts = r
		}
		fmt.Fprintf(&sb, "%s %s %s\n", ev.Type, ts, d)
	}
	tail := b
	if i := bytes.LastIndexByte(b, '\n'); i >= 0 {
		tail = b[i+1:]
	}
	if len(tail) > 0 {
		fmt.Fprintf(&sb, "TAIL %q\n", tail)
	}
	return sb.String()
}

func tsLess(a, b string) bool {
	// same layout up to seconds; compare the prefix, then fractional part numerically
	pa, fa := splitTS(a)
	pb, fb := splitTS(b)
	if pa != pb {
		return pa < pb
	}
	for len(fa) < 9 {
		fa += "0"
	}
	for len(fb) < 9 {
		fb += "0"
	}
	return fa < fb
}

func splitTS(s string) (string, string) {
	s = strings.TrimSuffix(s, "Z")
	if i := strings.IndexByte(s, '.'); i >= 0 {
		return s[:i], s[i+1:]
	}
	return s, ""
}

// TSLess orders two RFC3339Nano UTC strings.
func TSLess(a, b string) bool { return tsLess(a, b) }
