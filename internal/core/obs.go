package core

import (
	"encoding/json"
	"fmt"
	"sort"
	"strings"
)

// Item is one row of `list --json`.
type Item struct {
	Kind       string `json:"kind"`
	ID         string `json:"id"`
	EpicID     string `json:"epic_id"`
	State      string `json:"state"`
	ClaimedBy  string `json:"claimed_by"`
	Title      string `json:"title"`
	Ready      bool   `json:"ready"`
	Blocked    bool   `json:"blocked"`
	HasResults bool   `json:"has_results"`
}

type ResultItem struct {
	Summary   string `json:"summary"`
	Path      string `json:"path"`
	FileURL   string `json:"file_url"`
	Sha256    string `json:"sha256_at_attach"`
	Mtime     string `json:"mtime_at_attach"`
	GitCommit string `json:"git_commit_at_attach"`
	CreatedAt string `json:"created_at"`
}

// Show is `show --json <id>` (for an epic with children the "epic" part).
type Show struct {
	ID        string       `json:"id"`
	UUID      string       `json:"uuid"`
	EpicID    string       `json:"epic_id"`
	State     string       `json:"state"`
	ClaimedBy string       `json:"claimed_by"`
	ClaimedAt string       `json:"claimed_at"`
	CreatedAt string       `json:"created_at"`
	UpdatedAt string       `json:"updated_at"`
	Deps      []string     `json:"deps"`
	RDeps     []string     `json:"rdeps"`
	Title     string       `json:"title"`
	Body      string       `json:"body"`
	Results   []ResultItem `json:"results"`
	Children  []string     `json:"-"` // ids of children (epics only), in the order shown
}

// Obs is everything a reader can see of a store.
type Obs struct {
	Fail    string // non-empty when some read command failed: "<cmd>: exit=.. err=.."
	All     []Item
	Epics   []Item
	Ready   []Item
	Shows   map[string]Show
	RawAll  string
	RawEp   string
	RawRdy  string
	RawShow map[string]string
}

func (o Obs) Item(id string) (Item, bool) {
	for _, it := range o.All {
		if it.ID == id {
			return it, true
		}
	}
	for _, it := range o.Epics {
		if it.ID == id {
			return it, true
		}
	}
	return Item{}, false
}

func (o Obs) IDs() []string {
	var ids []string
	for _, it := range o.All {
		ids = append(ids, it.ID)
	}
	for _, it := range o.Epics {
		ids = append(ids, it.ID)
	}
	sort.Strings(ids)
	return ids
}

// Raw is the byte-exact concatenation of everything observed (for same-log comparisons).
func (o Obs) Raw() string {
	var sb strings.Builder
	sb.WriteString("FAIL:" + o.Fail + "\nALL:" + o.RawAll + "EPICS:" + o.RawEp + "READY:" + o.RawRdy)
	ids := make([]string, 0, len(o.RawShow))
	for id := range o.RawShow {
		ids = append(ids, id)
	}
	sort.Strings(ids)
	for _, id := range ids {
		sb.WriteString("SHOW " + id + ":" + o.RawShow[id])
	}
	return sb.String()
}

// ObserveW observes through a worker's server in one round trip (same commands as Observe).
func ObserveW(w *Worker, root string) Obs {
	batch, ok := w.Srv.RunObserve(root)
	if !ok {
		return Obs{Fail: "server: " + batch.Res[0].String()}
	}
	i := 0
	return Observe(func(r Req) Res {
		if i < len(batch.Res) {
			i++
			return batch.Res[i-1]
		}
		return w.Srv.Run(r) // not expected; falls back to a real call
	}, root)
}

// Observe runs the read commands through run (cwd = project root).
func Observe(run func(Req) Res, root string) Obs {
	o := observe(run, root)
	// the project root only shows up in derived file:// URLs; make observations comparable across directories
	o.RawAll = strings.ReplaceAll(o.RawAll, root, "<ROOT>")
	for id, raw := range o.RawShow {
		o.RawShow[id] = strings.ReplaceAll(raw, root, "<ROOT>")
	}
	for id, sh := range o.Shows {
		for i := range sh.Results {
			sh.Results[i].FileURL = strings.ReplaceAll(sh.Results[i].FileURL, root, "<ROOT>")
		}
		o.Shows[id] = sh
	}
	return o
}

func observe(run func(Req) Res, root string) Obs {
	o := Obs{Shows: map[string]Show{}, RawShow: map[string]string{}}
	get := func(dst *[]Item, raw *string, args ...string) bool {
		res := run(R(root, args...))
		if res.Exit != 0 {
			o.Fail = fmt.Sprintf("%s: %s", strings.Join(args, " "), res)
			return false
		}
		*raw = string(res.Out)
		if err := json.Unmarshal(res.Out, dst); err != nil {
			o.Fail = fmt.Sprintf("%s: bad JSON %v: %q", strings.Join(args, " "), err, clip(string(res.Out), 300))
			return false
		}
		return true
	}
	if !get(&o.All, &o.RawAll, "--json", "list", "--all") {
		return o
	}
	if !get(&o.Epics, &o.RawEp, "--json", "list", "--epics") {
		return o
	}
	if !get(&o.Ready, &o.RawRdy, "--json", "list", "--ready") {
		return o
	}
	for _, id := range o.IDs() {
		res := run(R(root, "--json", "show", id))
		if res.Exit != 0 {
			o.Fail = fmt.Sprintf("show %s: %s", id, res)
			return o
		}
		o.RawShow[id] = string(res.Out)
		sh, err := ParseShow(res.Out)
		if err != nil {
			o.Fail = fmt.Sprintf("show %s: bad JSON %v", id, err)
			return o
		}
		o.Shows[id] = sh
	}
	return o
}

func ParseShow(b []byte) (Show, error) {
	var probe map[string]json.RawMessage
	if err := json.Unmarshal(b, &probe); err != nil {
		return Show{}, err
	}
	if ep, ok := probe["epic"]; ok {
		var sh Show
		if err := json.Unmarshal(ep, &sh); err != nil {
			return Show{}, err
		}
		var kids []Show
		if err := json.Unmarshal(probe["children"], &kids); err != nil {
			return Show{}, err
		}
		for _, k := range kids {
			sh.Children = append(sh.Children, k.ID)
		}
		return sh, nil
	}
	var sh Show
	err := json.Unmarshal(b, &sh)
	return sh, err
}

// ---------------------------------------------------------------------------------------------
// normalisation for comparing two different runs

// Norm renders the observation with timestamps reduced to ""/"T" (or rank when ranks=true over
// created_at only), uuids dropped and ids mapped through idmap (nil = identity).
func (o Obs) Norm(idmap map[string]string) string {
	m := func(id string) string {
		if idmap == nil || id == "" {
			return id
		}
		if v, ok := idmap[id]; ok {
			return v
		}
		return "?" + id
	}
	ts := func(s string) string {
		if s == "" {
			return ""
		}
		return "T"
	}
	var sb strings.Builder
	if o.Fail != "" {
		sb.WriteString("FAIL\n")
	}
	items := func(tag string, its []Item) {
		var rows []string
		for _, it := range its {
			rows = append(rows, fmt.Sprintf("%s %s id=%s epic=%s state=%s by=%s title=%q ready=%v blocked=%v res=%v",
				tag, it.Kind, m(it.ID), m(it.EpicID), it.State, it.ClaimedBy, it.Title, it.Ready, it.Blocked, it.HasResults))
		}
		sort.Strings(rows)
		for _, r := range rows {
			sb.WriteString(r + "\n")
		}
	}
	items("all", o.All)
	items("epic", o.Epics)
	items("ready", o.Ready)
	var rows []string
	for id, sh := range o.Shows {
		mm := func(ids []string) []string {
			out := make([]string, len(ids))
			for i, x := range ids {
				out[i] = m(x)
			}
			sort.Strings(out)
			return out
		}
		var rs []string
		for _, r := range sh.Results {
			rs = append(rs, fmt.Sprintf("{%q %q %q %s}", r.Summary, r.Path, r.FileURL, r.Sha256))
		}
		kids := make([]string, len(sh.Children))
		for i, k := range sh.Children {
			kids[i] = m(k)
		}
		sort.Strings(kids)
		rows = append(rows, fmt.Sprintf("show id=%s epic=%s state=%s by=%s at=%s created=%s updated=%s deps=%v rdeps=%v title=%q body=%q results=%v kids=%v",
			m(id), m(sh.EpicID), sh.State, sh.ClaimedBy, ts(sh.ClaimedAt), ts(sh.CreatedAt), ts(sh.UpdatedAt), mm(sh.Deps), mm(sh.RDeps), sh.Title, sh.Body, rs, kids))
	}
	sort.Strings(rows)
	for _, r := range rows {
		sb.WriteString(r + "\n")
	}
	return sb.String()
}

// TitleMap maps ids to "<title>" (titles are unique by construction in the harness fixtures).
func (o Obs) TitleMap() map[string]string {
	m := map[string]string{}
	for _, it := range o.All {
		m[it.ID] = "<" + it.Title + ">"
	}
	for _, it := range o.Epics {
		m[it.ID] = "<" + it.Title + ">"
	}
	return m
}
