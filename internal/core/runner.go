package core

import (
	"bufio"
	"bytes"
	"crypto/sha256"
	"encoding/base32"
	"encoding/hex"
	"encoding/json"
	"fmt"
	"os"
	"os/exec"
	"path/filepath"
	"strings"
	"sync"
	"syscall"
	"time"
)

// Req is one real ergo command.
type Req struct {
	Cwd      string   `json:"cwd"`
	Args     []string `json:"args"`
	Stdin    *[]byte  `json:"stdin"`     // nil => /dev/null (flags-only mode); else piped
	RandBase int64    `json:"rand_base"` // <0 => real randomness; else scripted id/uuid counter
	RandHex  []string `json:"rand_hex,omitempty"`
	PtyCols  int      `json:"pty_cols,omitempty"`
	PtyRows  int      `json:"pty_rows,omitempty"`
	Observe  bool     `json:"observe,omitempty"`
	// StdoutTo: spawned runs only - stdout is this file (e.g. /dev/full: every write fails) instead of a pipe
	StdoutTo string `json:"stdout_to,omitempty"`
	// FsizeLimit: spawned runs only - the process runs under RLIMIT_FSIZE = this many bytes (prlimit), so a write that
	// would grow a file beyond it is cut short and the next one fails (what a full disk or a quota does)
	FsizeLimit int64 `json:"fsize_limit,omitempty"`
	// HoldLock: replays only - the harness holds an exclusive flock on <cwd>/.ergo/lock while the command runs
	HoldLock bool `json:"hold_lock,omitempty"`
}

type Res struct {
	Out     []byte `json:"out"`
	Err     []byte `json:"err"`
	Exit    int    `json:"exit"`
	Panic   bool   `json:"panic"`
	Reads   int    `json:"rand_reads"`
	Timeout bool   `json:"timeout,omitempty"`
	Micros  int64  `json:"micros,omitempty"`
}

func (r Res) String() string {
	return fmt.Sprintf("exit=%d out=%q err=%q", r.Exit, clip(string(r.Out), 400), clip(string(r.Err), 400))
}

func clip(s string, n int) string {
	if len(s) > n {
		return s[:n] + "…"
	}
	return s
}

func Stdin(s string) *[]byte { b := []byte(s); return &b }

// R builds a request with scripted randomness off.
func R(cwd string, args ...string) Req { return Req{Cwd: cwd, Args: args, RandBase: -1} }

func (r Req) In(s string) Req         { r.Stdin = Stdin(s); return r }
func (r Req) Rand(base int64) Req     { r.RandBase = base; return r }
func (r Req) RandIDs(h ...string) Req { r.RandHex = h; return r }

func (r Req) Shell() string {
	var sb strings.Builder
	if r.Stdin != nil {
		fmt.Fprintf(&sb, "printf '%%s' %s | ", shQuote(string(*r.Stdin)))
	}
	sb.WriteString("ergo")
	for _, a := range r.Args {
		sb.WriteString(" " + shQuote(a))
	}
	if r.Stdin == nil {
		sb.WriteString(" </dev/null")
	}
	return sb.String()
}

func shQuote(s string) string {
	if s != "" && strings.IndexFunc(s, func(r rune) bool {
		return !(r >= 'a' && r <= 'z' || r >= 'A' && r <= 'Z' || r >= '0' && r <= '9' || strings.ContainsRune("-_./=:@,", r))
	}) < 0 {
		return s
	}
	return "'" + strings.ReplaceAll(s, "'", `'\''`) + "'"
}

type Runner interface {
	Run(Req) Res
}

// CmdEnv is the fixed environment of every ergo process the harness starts.
func CmdEnv(extra ...string) []string {
	return append([]string{"PATH=/usr/bin:/bin", "HOME=/nonexistent", "LANG=C.UTF-8", "LC_ALL=C.UTF-8", "TERM=dumb"}, extra...)
}

// ---------------------------------------------------------------------------------------------
// spawn backend

type Spawn struct {
	Bin string
	Env []string
}

func (s Spawn) Run(r Req) Res {
	cmd := exec.Command(s.Bin, r.Args...)
	if r.FsizeLimit > 0 {
		cmd = exec.Command("prlimit", append([]string{fmt.Sprintf("--fsize=%d", r.FsizeLimit), "--", s.Bin}, r.Args...)...)
	}
	cmd.Dir = r.Cwd
	env := CmdEnv(s.Env...)
	env = append(env, "PWD="+r.Cwd)
	if r.RandBase >= 0 {
		env = append(env, fmt.Sprintf("ERGO_VERIF_RAND=%d", r.RandBase))
		if len(r.RandHex) > 0 {
			env = append(env, "ERGO_VERIF_RAND_HEX="+strings.Join(r.RandHex, ","))
		}
	}
	cmd.Env = env
	if r.Stdin != nil {
		cmd.Stdin = bytes.NewReader(*r.Stdin)
	}
	var o, e bytes.Buffer
	cmd.Stdout, cmd.Stderr = &o, &e
	if r.StdoutTo != "" {
		f, err := os.OpenFile(r.StdoutTo, os.O_WRONLY, 0)
		if err != nil {
			return Res{Err: []byte("spawn: " + err.Error()), Exit: 99}
		}
		defer f.Close()
		cmd.Stdout = f
	}
	done := make(chan error, 1)
	if err := cmd.Start(); err != nil {
		return Res{Err: []byte("spawn: " + err.Error()), Exit: 99}
	}
	go func() { done <- cmd.Wait() }()
	select {
	case err := <-done:
		res := Res{Out: o.Bytes(), Err: e.Bytes()}
		if err != nil {
			if ee, ok := err.(*exec.ExitError); ok {
				res.Exit = ee.ExitCode()
				if ws, ok := ee.Sys().(syscall.WaitStatus); ok && ws.Signaled() {
					res.Exit = 128 + int(ws.Signal())
				}
			} else {
				res.Exit = 99
				res.Err = append(res.Err, []byte("spawn: "+err.Error())...)
			}
		}
		if res.Exit == 2 && bytes.Contains(res.Err, []byte("goroutine ")) {
			res.Panic = true
		}
		return res
	case <-time.After(60 * time.Second):
		cmd.Process.Kill()
		<-done
		return Res{Out: o.Bytes(), Err: e.Bytes(), Exit: -1, Timeout: true}
	}
}

// ---------------------------------------------------------------------------------------------
// server backend

type Server struct {
	bin  string
	cmd  *exec.Cmd
	reqW *os.File
	resR *bufio.Reader
	resF *os.File
	mu   sync.Mutex
}

func StartServer(bin string) (*Server, error) {
	s := &Server{bin: bin}
	if err := s.start(); err != nil {
		return nil, err
	}
	return s, nil
}

func (s *Server) start() error {
	reqR, reqW, err := os.Pipe()
	if err != nil {
		return err
	}
	resR, resW, err := os.Pipe()
	if err != nil {
		return err
	}
	cmd := exec.Command(s.bin)
	cmd.Env = CmdEnv("ERGO_VERIF_SERVER=1")
	cmd.ExtraFiles = []*os.File{reqR, resW}
	cmd.Stderr = os.Stderr
	cmd.Dir = "/"
	if err := cmd.Start(); err != nil {
		return err
	}
	reqR.Close()
	resW.Close()
	s.cmd, s.reqW, s.resF = cmd, reqW, resR
	s.resR = bufio.NewReaderSize(resR, 1<<20)
	return nil
}

func (s *Server) Close() {
	s.mu.Lock()
	defer s.mu.Unlock()
	s.stop()
}

func (s *Server) stop() {
	if s.cmd == nil {
		return
	}
	s.reqW.Close()
	s.cmd.Process.Kill()
	s.cmd.Wait()
	s.resF.Close()
	s.cmd = nil
}

func (s *Server) Run(r Req) Res {
	line, res := s.exchange(r)
	if line == nil {
		return res
	}
	if err := json.Unmarshal(line, &res); err != nil {
		s.Close()
		return Res{Err: []byte("server: bad response: " + err.Error()), Exit: 98}
	}
	return res
}

// ObsBatch is the reply to an Observe request.
type ObsBatch struct {
	IDs []string `json:"ids"`
	Res []Res    `json:"res"`
}

// RunObserve runs list --all/--epics/--ready and show <id> for every id in one round trip.
func (s *Server) RunObserve(cwd string) (ObsBatch, bool) {
	line, res := s.exchange(Req{Cwd: cwd, Observe: true, RandBase: -1})
	var ob ObsBatch
	if line == nil {
		ob.Res = []Res{res}
		return ob, false
	}
	if err := json.Unmarshal(line, &ob); err != nil {
		s.Close()
		return ObsBatch{Res: []Res{{Err: []byte("server: bad response: " + err.Error()), Exit: 98}}}, false
	}
	return ob, true
}

// exchange sends one request and returns the raw response line (nil + error result on failure).
func (s *Server) exchange(r Req) ([]byte, Res) {
	s.mu.Lock()
	defer s.mu.Unlock()
	if s.cmd == nil {
		if err := s.start(); err != nil {
			return nil, Res{Err: []byte("server: " + err.Error()), Exit: 99}
		}
	}
	b, _ := json.Marshal(r)
	b = append(b, '\n')
	if _, err := s.reqW.Write(b); err != nil {
		s.stop()
		return nil, Res{Err: []byte("server: write: " + err.Error()), Exit: 99}
	}
	// watchdog: a hang kills the server, which makes the blocking read below fail
	var timedOut bool
	var tmu sync.Mutex
	proc := s.cmd.Process
	timer := time.AfterFunc(60*time.Second, func() {
		tmu.Lock()
		timedOut = true
		tmu.Unlock()
		proc.Kill()
	})
	line, err := s.resR.ReadBytes('\n')
	timer.Stop()
	tmu.Lock()
	to := timedOut
	tmu.Unlock()
	if to {
		s.stop()
		return nil, Res{Exit: -1, Timeout: true}
	}
	if err != nil {
		s.stop()
		return nil, Res{Err: []byte("server: died: " + err.Error()), Exit: 98}
	}
	return line, Res{}
}

// ---------------------------------------------------------------------------------------------
// scripted ids (must mirror harness/zz_verif_server.go)

func randBytes(kind string, n int64, size int) []byte {
	var out []byte
	for ctr := 0; len(out) < size; ctr++ {
		h := sha256.New()
		fmt.Fprintf(h, "%s/%d/%d", kind, n, ctr)
		out = append(out, h.Sum(nil)...)
	}
	return out[:size]
}

// IDFor is the id the scripted random source hands out for counter n.
func IDFor(n int64) string {
	enc := base32.StdEncoding.WithPadding(base32.NoPadding).EncodeToString(randBytes("id", n, 4))
	return strings.ToUpper(enc[:6])
}

// HexForID returns 4 bytes (hex) that make shortID() produce the given id.
func HexForID(id string) string {
	b, err := base32.StdEncoding.WithPadding(base32.NoPadding).DecodeString(id + "AA")
	if err != nil {
		panic(err)
	}
	return hex.EncodeToString(b[:4])
}

// ---------------------------------------------------------------------------------------------
// workers

// Worker owns one server process and one private project directory.
type Worker struct {
	N    int
	Srv  *Server
	Dir  string // scratch root of this worker
	Proj string // Dir/proj : project root used for materialised stores
	env  *Env
}

func (w *Worker) Close() {
	if w.Srv != nil {
		w.Srv.Close()
	}
}

// Run runs a command in-process through this worker's server.
func (w *Worker) Run(r Req) Res { return w.Srv.Run(r) }

// Spawn runs a command as a fresh production process.
func (w *Worker) Spawn(r Req) Res { return Spawn{Bin: w.env.Prod}.Run(r) }

func (e *Env) worker(i int) (*Worker, error) {
	e.mu.Lock()
	defer e.mu.Unlock()
	for len(e.pool) <= i {
		n := len(e.pool)
		dir := filepath.Join(e.Scratch, fmt.Sprintf("w%d", n))
		if err := os.MkdirAll(filepath.Join(dir, "proj"), 0o755); err != nil {
			return nil, err
		}
		srv, err := StartServer(e.Verif)
		if err != nil {
			return nil, err
		}
		e.pool = append(e.pool, &Worker{N: n, Srv: srv, Dir: dir, Proj: filepath.Join(dir, "proj"), env: e})
	}
	return e.pool[i], nil
}

// WorkerN returns worker i, starting it if needed.
func (e *Env) WorkerN(i int) *Worker {
	w, err := e.worker(i)
	if err != nil {
		e.HarnessError("cannot start worker: %v", err)
	}
	return w
}

// W0 returns worker 0 (for sequential set-up code).
func (e *Env) W0() *Worker {
	w, err := e.worker(0)
	if err != nil {
		e.HarnessError("cannot start worker: %v", err)
	}
	return w
}

// Parallel runs fn(worker, i) for i in [0,n) on e.Workers workers. fn must only touch its worker's dirs.
func (e *Env) Parallel(n int, fn func(w *Worker, i int)) {
	nw := e.Workers
	if nw > n {
		nw = n
	}
	if nw < 1 {
		return
	}
	var next int64
	var mu sync.Mutex
	var wg sync.WaitGroup
	for k := 0; k < nw; k++ {
		w, err := e.worker(k)
		if err != nil {
			e.HarnessError("cannot start worker: %v", err)
		}
		wg.Add(1)
		go func(w *Worker) {
			defer wg.Done()
			for {
				mu.Lock()
				i := int(next)
				next++
				mu.Unlock()
				if i >= n {
					return
				}
				fn(w, i)
			}
		}(w)
	}
	wg.Wait()
}
