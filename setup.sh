#!/bin/bash
# Offline setup: build the checker and warm the Go build cache for both ergo binaries.
set -e
cd "$(dirname "$0")"
export GOFLAGS=-mod=mod GOPROXY=off
mkdir -p bin evidence
GOTOOLCHAIN=local go build -o bin/vcheck ./cmd/vcheck
# warm the caches (prod + verif builds of /repo) by running the cheapest check's build step
VERIF_BUDGET_S=5 bin/vcheck WARM >/dev/null 2>&1 || true
echo "setup ok"
