#!/bin/bash
# Runs the repository's pinned test suite with the verif guard OFF and compares with BASELINE.json.
# usage: baseline.sh [repo-dir]   (default /repo). Exit 0 iff every stable_pass test passes.
repo="${1:-/repo}"
export GOFLAGS=-mod=mod GOPROXY=off
tmp=$(mktemp -p /dev/shm baseline.XXXXXX)
(cd "$repo" && go test -json -vet=off -count=1 -timeout 25m ./... >"$tmp" 2>/dev/null)
python3 - "$tmp" <<'PY'
import json,sys
base=json.load(open('/root/.vp/BASELINE.json'))
want=set(base['stable_pass']); got=set()
for l in open(sys.argv[1]):
    try: e=json.loads(l)
    except Exception: continue
    if e.get('Action')=='pass' and e.get('Test'): got.add(e['Package']+'::'+e['Test'])
missing=sorted(want-got)
print(f"baseline: {len(want&got)}/{len(want)} stable tests pass")
for m in missing[:20]: print("  MISSING", m)
sys.exit(1 if missing else 0)
PY
rc=$?; rm -f "$tmp"; exit $rc
